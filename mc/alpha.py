"""Alphabets, sequence enumeration, carriers and safe calls shared by the property modules.

Cases are made of JSON-safe primitives: a *symbol* of a data series is a float, the
string "nan" (NaN marker) or None (the Python None marker, list carriers only).
"""
from __future__ import annotations

import itertools
import math

import numpy as np

NAN = "nan"
T0 = 1_577_836_800  # 2020-01-01T00:00:00Z in epoch seconds


def all_seqs(alphabet, nmin, nmax):
    """Every sequence of length nmin..nmax, shortest first (BFS order of the prefix tree)."""
    for n in range(nmin, nmax + 1):
        yield from itertools.product(alphabet, repeat=n)


def n_seqs(k, nmin, nmax):
    return sum(k ** n for n in range(nmin, nmax + 1))


def to_float(sym):
    """symbol -> float with NaN for every missing marker."""
    if sym is None or sym == NAN:
        return math.nan
    return float(sym)


def to_ref(sym):
    """symbol -> value for the reference models (None = missing)."""
    if sym is None or sym == NAN:
        return None
    return float(sym)


def pylist(seq):
    """symbols -> python list as a user would write it (NaN as float nan, None kept)."""
    return [math.nan if s == NAN else s for s in seq]


def nd(seq, dtype=np.float64):
    return np.array([to_float(s) for s in seq], dtype=dtype)


def ref(seq):
    return [to_ref(s) for s in seq]


def times_from_gaps(gaps, t0=T0):
    """n gaps -> n+1 absolute epoch seconds."""
    out = [t0]
    for g in gaps:
        out.append(out[-1] + g)
    return out


def regular_secs(n, step=60, t0=T0):
    return [t0 + i * step for i in range(n)]


def dt64(secs):
    return np.array(secs, dtype="int64").astype("datetime64[s]").astype("datetime64[ns]")


class Raised:
    """Observation of a call that raised."""

    __slots__ = ("name", "msg")

    def __init__(self, e):
        self.name = type(e).__name__
        self.msg = str(e)[:200]

    def __repr__(self):
        return f"raises:{self.name}"


def call(fn, *a, **k):
    """Call the real code; exceptions become observations (KeyboardInterrupt etc. propagate)."""
    try:
        with np.errstate(all="ignore"):
            return fn(*a, **k)
    except Exception as e:  # noqa: BLE001
        return Raised(e)


def flags_of(out):
    """Normalise a flag-array return value to (list of python ints/None(masked), shape, problems)."""
    problems = []
    if isinstance(out, Raised):
        return None, None, [repr(out)]
    try:
        arr = np.asanyarray(out)
    except Exception as e:  # noqa: BLE001
        return None, None, [f"unarrayable:{type(e).__name__}"]
    mask = np.ma.getmaskarray(arr) if isinstance(arr, np.ma.MaskedArray) else np.zeros(arr.shape, dtype=bool)
    data = np.ma.getdata(arr)
    vals = []
    try:
        flat = data.reshape(-1).tolist()
        mflat = mask.reshape(-1).tolist()
    except Exception as e:  # noqa: BLE001
        return None, None, [f"unflattenable:{type(e).__name__}"]
    for v, m in zip(flat, mflat):
        if m:
            vals.append(None)
        else:
            try:
                iv = int(v)
                vals.append(iv if iv == v else v)
            except Exception:  # noqa: BLE001
                vals.append(repr(v))
    return vals, tuple(arr.shape), problems


def judge(vals, acceptable):
    """index list where vals[i] not in acceptable[i] (None = not judged)."""
    bad = []
    for i, (v, acc) in enumerate(zip(vals, acceptable)):
        if acc is None:
            continue
        if v not in acc:
            bad.append(i)
    return bad


def acc_json(acceptable):
    return [None if a is None else sorted(a) for a in acceptable]


def is_nontrivial(acceptable, boring=(1,)):
    """a case is non-trivial when the reference demands something other than the default flag somewhere."""
    for a in acceptable:
        if a is not None and not (len(a) == 1 and next(iter(a)) in boring):
            return True
    return False


def debruijn(alphabet, n):
    """de Bruijn sequence B(len(alphabet), n) as a list of symbols, linearised (first n-1 symbols appended) so that
    every length-n window over the alphabet occurs exactly once: one long series that contains every local pattern."""
    k = len(alphabet)
    a = [0] * (k * n)
    seq = []

    def db(t, p):
        if t > n:
            if n % p == 0:
                seq.extend(a[1:p + 1])
        else:
            a[t] = a[t - p]
            db(t + 1, p)
            for j in range(a[t - p] + 1, k):
                a[t] = j
                db(t + 1, t)

    db(1, 1)
    seq = seq + seq[: n - 1]
    return [alphabet[i] for i in seq]


def xl(alphabet, n=12345, order=4):
    """a very long series (default 12345 points): de Bruijn blocks, each block rotated differently, so that every
    local pattern occurs at many different absolute positions (size-keyed fast paths, chunk boundaries)"""
    base = debruijn(tuple(alphabet), order)
    out = []
    k = 0
    while len(out) < n:
        r = (k * 37) % len(base)
        out.extend(base[r:] + base[:r])
        k += 1
    return out[:n]
