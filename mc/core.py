"""Explicit-state, bounded-exhaustive explorer core for the ioos_qc checks.

A *problem* (one module per property in /verif/props) supplies

    tasks(tier)            -> list of picklable task descriptors (a partition of
                              the bounded space; a pure function of the tier, so
                              the explored set is the same for every seed / core
                              count)
    run_task(task, acc)    -> enumerates every case of that partition, executes
                              the REAL code on it and judges it; reports through
                              the accumulator `acc`
    replay(case)           -> re-executes one case (a JSON-able dict) without the
                              explorer and returns the list of violations
    META                   -> dict(rule=..., bounds=..., not_judged=[...], assumptions=[...])

The accumulator counts states (= cases executed: every node of the prefix tree /
event graph is a complete input and is executed from scratch on the real
function), transitions (= edges: parent-case -> case), non-trivial cases,
distinct observations and an order independent digest of the explored case ids.
Nothing is sampled: VERIF_SEED only rotates the task order and chooses which
explored cases are written out as samples.
"""
from __future__ import annotations

import hashlib
import json
import logging
import math
import multiprocessing as mp
import os
import sys
import time
import traceback
import zlib

VERIF_DIR = os.path.dirname(os.path.dirname(os.path.abspath(__file__)))
REPO = os.environ.get("IOOS_QC_REPO", "/repo")
GUARD = "IOOS_QC_VERIF"

_BOUND = False


def bind_repo():
    """Import ioos_qc from the working tree under test (not from site-packages)."""
    global _BOUND
    if _BOUND:
        return
    os.environ.setdefault(GUARD, "1")
    repo = os.path.realpath(REPO)
    if repo in sys.path:
        sys.path.remove(repo)
    sys.path.insert(0, repo)
    for m in [m for m in sys.modules if m == "ioos_qc" or m.startswith("ioos_qc.")]:
        del sys.modules[m]
    import ioos_qc  # noqa

    got = os.path.realpath(ioos_qc.__file__)
    if not got.startswith(repo + os.sep):
        raise SystemExit(f"harness error: ioos_qc imported from {got}, expected under {repo}")
    logging.disable(logging.CRITICAL)
    import warnings

    warnings.filterwarnings("ignore")
    _BOUND = True


def fresh_modules():
    """Drop every loaded ioos_qc module so that the next use re-imports it: replays start from the
    library's initial module state (a leak through module-level state must reproduce identically)."""
    for m in [m for m in sys.modules if m == "ioos_qc" or m.startswith("ioos_qc.")]:
        del sys.modules[m]
    import ioos_qc  # noqa: F401


HIST_TAG = "|history-dependent"


def replay_case(mod, case):
    """mod.replay(case); a case recorded with "_history" first re-executes those earlier cases in the same process
    (results ignored) - the violation only exists after them - and its signatures carry HIST_TAG."""
    if isinstance(case, dict) and "_history" in case:
        for h in case["_history"]:
            try:
                mod.replay(h)
            except Exception:  # noqa: BLE001
                pass
        plain = {k: v for k, v in case.items() if k != "_history"}
        out = []
        for v in mod.replay(plain):
            v = dict(v)
            v["signature"] = v["signature"] + HIST_TAG
            out.append(v)
        return out
    return mod.replay(case)


def repo_file():
    import ioos_qc

    return os.path.realpath(ioos_qc.__file__)


# ----------------------------------------------------------------------------
# JSON-safe encoding of cases / observations
# ----------------------------------------------------------------------------

def jsonable(x):
    """Recursively convert to something json.dumps(allow_nan=False) accepts."""
    import numpy as np

    if x is None or isinstance(x, (bool, str)):
        return x
    if isinstance(x, (int,)):
        return int(x)
    if isinstance(x, float):
        if math.isnan(x):
            return "nan"
        if math.isinf(x):
            return "inf" if x > 0 else "-inf"
        return x
    if x is np.ma.masked:
        return "masked"
    if isinstance(x, np.ma.MaskedArray):
        return {"ma": jsonable(np.ma.getdata(x).tolist()), "mask": jsonable(np.ma.getmaskarray(x).tolist())}
    if isinstance(x, np.ndarray):
        if x.dtype.kind in "Mm":
            return [str(v) for v in x.tolist()] if x.ndim else str(x)
        return jsonable(x.tolist())
    if isinstance(x, np.generic):
        if isinstance(x, (np.datetime64, np.timedelta64)):
            return str(x)
        return jsonable(x.item())
    if isinstance(x, dict):
        return {str(k): jsonable(v) for k, v in x.items()}
    if isinstance(x, (list, tuple, set, frozenset)):
        return [jsonable(v) for v in x]
    return repr(x)


def case_id(case) -> str:
    return json.dumps(jsonable(case), sort_keys=True, separators=(",", ":"))


def h64(s: str) -> int:
    return int.from_bytes(hashlib.blake2b(s.encode(), digest_size=8).digest(), "big")


# ----------------------------------------------------------------------------
# Accumulator
# ----------------------------------------------------------------------------

class Violation(dict):
    pass


class Acc:
    """Per-worker accumulator; merged in the parent."""

    OBS_CAP = 400_000

    def __init__(self, prop: str, seed: int = 0, nsamples: int = 6):
        self.prop = prop
        self.seed = seed
        self.nsamples = nsamples
        self.states = 0
        self.transitions = 0
        self.evaluations = 0
        self.nontrivial = 0
        self.not_judged = 0
        self.digest = 0
        self.obs = set()
        self.obs_capped = False
        self.samples = []  # (rank, case)
        self.violations = {}  # signature -> violation (smallest case kept)
        self.nviol = 0
        self.extra = {}

    # -- bookkeeping -------------------------------------------------------
    def visit(self, cid, nontrivial: bool, obs=None, *, edges: int = 1, evals: int = 1, sample=None):
        """Record one explored state.

        cid: hashable/str id of the case (unique inside the space), nontrivial:
        by the module's stated rule, obs: hashable observation (flag tuple...),
        edges: transitions into this state, evals: real executions it cost.
        """
        if not isinstance(cid, str):
            cid = repr(cid)
        self.states += 1
        self.transitions += edges
        self.evaluations += evals
        if nontrivial:
            self.nontrivial += 1
        c = zlib.crc32(cid.encode())
        c2 = zlib.adler32(cid.encode())
        hv = (c << 32) | c2
        self.digest ^= hv
        if obs is not None and not self.obs_capped:
            self.obs.add(hash(obs))
            if len(self.obs) > self.OBS_CAP:
                self.obs_capped = True
        rank = (hv * 0x9E3779B97F4A7C15 + self.seed * 0xD1B54A32D192ED03) & 0xFFFFFFFFFFFFFFFF
        if len(self.samples) < self.nsamples or rank < self.samples[-1][0]:
            self.samples.append((rank, sample if sample is not None else cid))
            self.samples.sort(key=lambda t: t[0])
            del self.samples[self.nsamples:]

    def skip(self, n=1):
        self.not_judged += n

    def bump(self, key, n=1):
        self.extra[key] = self.extra.get(key, 0) + n

    def violation(self, signature: str, what: str, case, expected=None, observed=None, size=None):
        self.nviol += 1
        size = size if size is not None else len(case_id(case))
        cur = self.violations.get(signature)
        key = (size, case_id(case))
        if cur is None or key < cur["_key"]:
            v = Violation(
                property=self.prop,
                signature=signature,
                what=what,
                case=jsonable(case),
                expected=jsonable(expected),
                observed=jsonable(observed),
                count=(cur["count"] if cur else 0),
            )
            v["_key"] = key
            self.violations[signature] = v
        self.violations[signature]["count"] += 1

    # -- merge ---------------------------------------------------------------
    def export(self):
        return dict(
            states=self.states, transitions=self.transitions, evaluations=self.evaluations,
            nontrivial=self.nontrivial, not_judged=self.not_judged, digest=self.digest,
            obs=self.obs, obs_capped=self.obs_capped, samples=self.samples,
            violations=self.violations, nviol=self.nviol, extra=self.extra,
        )

    def merge(self, d):
        self.states += d["states"]
        self.transitions += d["transitions"]
        self.evaluations += d["evaluations"]
        self.nontrivial += d["nontrivial"]
        self.not_judged += d["not_judged"]
        self.digest ^= d["digest"]
        if not self.obs_capped:
            self.obs |= d["obs"]
            if len(self.obs) > self.OBS_CAP or d["obs_capped"]:
                self.obs_capped = True
        self.samples = sorted(self.samples + d["samples"], key=lambda t: t[0])[: self.nsamples]
        self.nviol += d["nviol"]
        for k, v in d["extra"].items():
            self.extra[k] = self.extra.get(k, 0) + v
        for sig, v in d["violations"].items():
            cur = self.violations.get(sig)
            if cur is None:
                self.violations[sig] = v
            else:
                cnt = cur["count"] + v["count"]
                if tuple(v["_key"]) < tuple(cur["_key"]):
                    self.violations[sig] = v
                self.violations[sig]["count"] = cnt


# ----------------------------------------------------------------------------
# Parallel driver
# ----------------------------------------------------------------------------

_MOD = None
_SEED = 0


def _work(task):
    acc = Acc(_MOD.PROP, _SEED)
    t0 = time.time()
    try:
        _MOD.run_task(task, acc)
    except BaseException as e:  # harness errors must be loud, not silent
        return ("error", repr(task), "".join(traceback.format_exception(type(e), e, e.__traceback__)))
    return ("ok", acc.export(), time.time() - t0)


def explore(mod, tier: str, seed: int, budget_s: float, nproc: int | None = None):
    """Run all tasks of `mod` for `tier`; returns (Acc, info)."""
    global _MOD, _SEED
    _MOD, _SEED = mod, seed
    bind_repo()
    if hasattr(mod, "warmup"):
        mod.warmup(tier)
    tasks = list(mod.tasks(tier))
    ntasks = len(tasks)
    # seed only rotates traversal order (the explored set is unchanged)
    if ntasks:
        r = seed % ntasks
        order = tasks[r:] + tasks[:r]
    else:
        order = []
    total = Acc(mod.PROP, seed)
    nproc = nproc or int(os.environ.get("VERIF_NPROC", "0")) or min(16, os.cpu_count() or 1)
    t0 = time.time()
    done = 0
    capped = False
    errors = []
    if nproc == 1 or ntasks <= 1:
        for t in order:
            res = _work(t)
            if res[0] == "error":
                errors.append(res)
            else:
                total.merge(res[1])
            done += 1
            if time.time() - t0 > budget_s:
                capped = done < ntasks
                break
    else:
        ctx = mp.get_context("fork")
        with ctx.Pool(min(nproc, ntasks)) as pool:
            it = pool.imap_unordered(_work, order, chunksize=1)
            while done < ntasks:
                remaining = budget_s - (time.time() - t0)
                if remaining <= 0:
                    capped = True
                    break
                try:
                    res = it.next(timeout=max(1.0, remaining))
                except mp.TimeoutError:
                    capped = True
                    break
                if res[0] == "error":
                    errors.append(res)
                else:
                    total.merge(res[1])
                done += 1
            pool.terminate()
    info = dict(tasks=ntasks, tasks_done=done, capped=capped, wall_s=time.time() - t0, nproc=nproc)
    if errors:
        sys.stderr.write(f"HARNESS ERROR in {len(errors)} task(s); first:\n{errors[0][1]}\n{errors[0][2]}\n")
        info["harness_errors"] = len(errors)
    return total, info
