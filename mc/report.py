"""Verdict, known-finding matching, replay artefacts and evidence files."""
from __future__ import annotations

import hashlib
import importlib
import json
import os
import sys

from . import core

KNOWN_PATH = os.path.join(core.VERIF_DIR, "known_findings.json")
REPLAY_DIR = os.environ.get("VERIF_REPLAY_DIR") or os.path.join(core.VERIF_DIR, "replays")
EVID_DIR = os.path.join(core.VERIF_DIR, "evidence")
SCHEMA = "/root/.vp/EVIDENCE.schema.json"
SCHEMA_LOCAL = os.path.join(core.VERIF_DIR, "mc", "EVIDENCE.schema.json")


def load_known():
    try:
        with open(KNOWN_PATH) as f:
            return json.load(f).get("findings", [])
    except FileNotFoundError:
        return []


def sighash(sig: str) -> str:
    return hashlib.blake2b(sig.encode(), digest_size=5).hexdigest()


def write_replay(prop, v, directory=REPLAY_DIR):
    os.makedirs(directory, exist_ok=True)
    path = os.path.join(directory, f"{prop}-{sighash(v['signature'])}.json")
    body = {k: v[k] for k in ("property", "signature", "what", "case", "expected", "observed", "count") if k in v}
    body["replay_cmd"] = f"./check replay {os.path.relpath(path, core.VERIF_DIR)}"
    with open(path, "w") as f:
        json.dump(body, f, indent=1, sort_keys=True)
    return path


def replay_file(path):
    """Re-execute one recorded case without the explorer."""
    with open(path) as f:
        body = json.load(f)
    prop = body["property"]
    mod = importlib.import_module(f"props.{prop.lower()}")
    core.bind_repo()
    if hasattr(mod, "warmup"):
        mod.warmup("quick")
    core.fresh_modules()
    vs1 = core.replay_case(mod, body["case"])
    core.fresh_modules()
    vs2 = core.replay_case(mod, body["case"])
    s1 = sorted(v["signature"] for v in vs1)
    s2 = sorted(v["signature"] for v in vs2)
    if s1 != s2:
        print(f"HARNESS ERROR: replay of {path} is not deterministic")
        return 2
    known = {(k["property"], k["signature"]) for k in load_known() if k.get("status") == "known"}
    sigs = [v["signature"] for v in vs1]
    print(f"replay {path}: property={prop} ioos_qc={core.repo_file()}")
    print(f"  recorded signature: {body['signature']}")
    if not vs1:
        print("  verdict: HOLDS on this case (no violation reproduced)")
        return 0
    rc = 0
    for v in vs1:
        tag = "KNOWN-FINDING" if (prop, v["signature"]) in known else "VIOLATION"
        print(f"  {tag}: {v['signature']} :: {v['what']}")
        print(f"     expected={json.dumps(v.get('expected'))} observed={json.dumps(v.get('observed'))}")
        if tag == "VIOLATION":
            rc = 1
    if rc:
        print(f"VIOLATION property={prop} replay={path}")
    return rc


def finish(mod, prop, tier, seed, acc, info, wall, write_evidence=True):
    known = [k for k in load_known() if k["property"] == prop]
    known_sigs = {k["signature"]: k for k in known if k.get("status") == "known"}
    harness_err = info.get("harness_errors", 0)

    # confirm every violation by a plain replay (twice) before reporting it
    confirmed, unstable = [], []
    for sig, v in sorted(acc.violations.items()):
        try:
            core.fresh_modules()
            r1 = core.replay_case(mod, v["case"])
            core.fresh_modules()
            r2 = core.replay_case(mod, v["case"])
        except Exception as e:  # noqa: BLE001
            unstable.append((sig, f"replay raised {e!r}"))
            continue
        # (the same violations must come back on both replays; the observed VALUES may differ between two executions
        #  when the code under test exposes indeterminate data, e.g. what lies under a dropped mask)
        k1 = sorted(x["signature"] for x in r1)
        k2 = sorted(x["signature"] for x in r2)
        if k1 != k2 or sig not in k1:
            unstable.append((sig, "violation did not reproduce identically on replay"))
            continue
        confirmed.append(v)

    new, seen_known = [], []
    for v in confirmed:
        if v["signature"] in known_sigs:
            seen_known.append(v)
        else:
            new.append(v)

    for v in seen_known:
        k = known_sigs[v["signature"]]
        print(f"KNOWN-FINDING: property={prop} {k.get('what_fails', v['what'])} [{v['signature']}] ({v['count']} cases)")
    paths = []
    new.sort(key=lambda v: tuple(v["_key"]))
    MAXREP = 25
    if len(new) > MAXREP:
        print(f"  ({len(new)} distinct violation signatures; writing replays for the {MAXREP} smallest cases)")
    for v in new[:MAXREP]:
        p = write_replay(prop, v)
        paths.append(p)
        print(f"  violation: {v['signature']} :: {v['what']} ({v['count']} cases)")
        print(f"     case={json.dumps(v['case'])[:600]}")
        print(f"     expected={json.dumps(v['expected'])[:300]} observed={json.dumps(v['observed'])[:300]}")
        print(f"VIOLATION property={prop} replay={p}")
    for sig, why in unstable:
        print(f"HARNESS ERROR: {sig}: {why}")

    meta = getattr(mod, "META", {})
    exhaustive = (not info["capped"]) and not harness_err
    cov = dict(
        states=acc.states,
        transitions=max(acc.transitions, 1) if acc.states else 0,
        traces_validated_against_impl=acc.evaluations,
        evaluations=acc.evaluations,
        distinct_nontrivial=acc.nontrivial,
        rule=meta.get("rule", ""),
        exhaustive=exhaustive,
        bounds=(meta.get("bounds", {}) or {}).get(tier, meta.get("bounds", {})),
        not_judged=meta.get("not_judged", []),
        not_judged_count=acc.not_judged,
        distinct_observations=(f">={len(acc.obs)}" if acc.obs_capped else len(acc.obs)),
        coverage_digest=f"{acc.digest:016x}",
        tasks=info["tasks"], tasks_done=info["tasks_done"],
        cap=(None if not info["capped"] else f"wall-clock budget hit after {info['tasks_done']}/{info['tasks']} partitions"),
        samples=[s for _, s in acc.samples] or ["<none>"],
        known_findings_seen=[v["signature"] for v in seen_known],
        violation_signatures=[v["signature"] for v in new],
        violation_cases_total=acc.nviol,
        counters=acc.extra,
        ioos_qc_file=core.repo_file(),
        nproc=info["nproc"],
        technique="bounded exhaustive explicit-state exploration of the real implementation (no sampling)",
    )
    ev = dict(
        property_id=prop, tier=tier, seed=seed, level="model_checking", coverage=cov,
        assumptions=meta.get("assumptions", []), wall_s=round(wall, 2), violations=len(new),
    )
    if write_evidence:
        os.makedirs(EVID_DIR, exist_ok=True)
        path = os.path.join(EVID_DIR, f"{prop}.json")
        with open(path, "w") as f:
            json.dump(core.jsonable(ev) if False else ev, f, indent=1, default=core.jsonable)
        try:
            import jsonschema

            sp = SCHEMA if os.path.exists(SCHEMA) else SCHEMA_LOCAL
            with open(sp) as f:
                schema = json.load(f)
            with open(path) as f:
                jsonschema.validate(json.load(f), schema)
        except Exception as e:  # noqa: BLE001
            print(f"HARNESS ERROR: evidence does not validate: {e}")
            return 2
    print(
        f"[{prop} {tier} seed={seed}] states={acc.states} transitions={acc.transitions} executions={acc.evaluations} "
        f"nontrivial={acc.nontrivial} distinct_obs={cov['distinct_observations']} not_judged={acc.not_judged} "
        f"digest={cov['coverage_digest']} exhaustive={exhaustive} known={len(seen_known)} new={len(new)} wall={wall:.1f}s"
    )
    if new:
        return 1
    if harness_err or unstable:
        return 2
    if acc.states == 0:
        print("HARNESS ERROR: nothing explored")
        return 2
    return 0
