#!/bin/bash
# phase 1 (parallel): repo suite + demo for every seed that has no meta yet; phase 2 (sequential): the target check
cd "$(dirname "$0")/.."
ls -d seeded/C* | while read d; do [ -f $d/meta.json ] || echo $d; done > /tmp/seeds_todo.txt
cat /tmp/seeds_todo.txt | xargs -P 5 -I{} sh -c 'p=$(basename {} | cut -d- -f1); /venv/bin/python tools/eval_seed.py {} $p --checks none'
for d in $(cat /tmp/seeds_todo.txt); do p=$(basename $d | cut -d- -f1); /venv/bin/python tools/eval_seed.py $d $p --skip-suite; done
/venv/bin/python tools/mutant_report.py
