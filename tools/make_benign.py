#!/venv/bin/python
"""Generates /verif/benign/<name>/patch.diff: behaviour-preserving refactors of /repo on which every check must stay
silent (used to look for over-demanding oracles)."""
import difflib
import json
import os
import sys

REPO = "/repo"
OUT = os.path.join(os.path.dirname(os.path.dirname(os.path.abspath(__file__))), "benign")

B = [
    ("compare_by_rank", "ioos_qc/qartod.py",
     "    for p in priorities:\n        for v in vectors:\n            idx = np.where(v == p)[0]\n            result[idx] = p\n    return result.astype(\"uint8\")\n",
     "    rank = np.full(shapes[0], -1)\n    for v in vectors:\n        vm = np.ma.getmaskarray(v)\n        vd = np.ma.getdata(v)\n        for r, p in enumerate(priorities):\n            hit = (vd == p) & ~vm & (rank < r)\n            rank[hit] = r\n    out = np.array([QartodFlags.MISSING if r < 0 else priorities[r] for r in rank], dtype=\"uint8\")\n    return np.ma.MaskedArray(out)\n",
     "qartod_compare rewritten as a max over precedence ranks"),
    ("gross_plain_ndarray_int64", "ioos_qc/qartod.py",
     "            QartodFlags.FAIL\n        )\n\n    return flag_arr.reshape(original_shape)\n\n\n@add_flag_metadata(\n    standard_name=\"gross_range_test_quality_flag\",",
     "            QartodFlags.FAIL\n        )\n\n    return np.asarray(flag_arr.reshape(original_shape)).astype(\"int64\")\n\n\n@add_flag_metadata(\n    standard_name=\"gross_range_test_quality_flag\",",
     "location_test returns a plain int64 ndarray instead of a masked uint8 array"),
    ("spike_loop", "ioos_qc/qartod.py",
     "        ref = np.ma.zeros(inp.size, dtype=np.float64)\n        ref[1:-1] = (inp[0:-2] + inp[2:]) / 2\n        ref = np.ma.masked_invalid(ref)\n",
     "        ref = np.ma.zeros(inp.size, dtype=np.float64)\n        for k in range(1, inp.size - 1):\n            ref[k] = (inp[k - 1] + inp[k + 1]) / 2\n        ref = np.ma.masked_invalid(ref)\n",
     "spike average reference computed in a loop"),
    ("collect_no_shortcut", "ioos_qc/results.py",
     "                if r.subset_indexes.all():\n                    # Copies: a later context with a window for the same stream and test\n                    # writes its rows into these arrays, and what a stream hands out may\n                    # be a read-only view of the source data\n                    collected[cr.hash_key].data = np.array(r.data, copy=True, subok=True)\n                    collected[cr.hash_key].tinp = np.array(r.tinp, copy=True, subok=True)\n                    collected[cr.hash_key].zinp = np.array(r.zinp, copy=True, subok=True)\n                    collected[cr.hash_key].lat = np.array(r.lat, copy=True, subok=True)\n                    collected[cr.hash_key].lon = np.array(r.lon, copy=True, subok=True)\n                else:\n",
     "                if True:\n",
     "collector never aliases the context's arrays (always scatters)"),
    ("pandas_positional_mask", "ioos_qc/streams.py",
     "            subset_indexes = pd.Series(keep, index=self.df.index, dtype=\"bool\")\n",
     "            subset_indexes = pd.Series(np.array(keep, dtype=bool).copy(), index=self.df.index, dtype=\"bool\")\n",
     "PandasStream copies its positional row mask"),
    ("roc_explicit_loop", "ioos_qc/qartod.py",
     "    with np.errstate(invalid=\"ignore\"):\n        flag_arr[roc > threshold] = QartodFlags.SUSPECT\n\n    # If the value is masked set the flag to MISSING\n    flag_arr[inp.mask] = QartodFlags.MISSING\n",
     "    bad = np.ma.filled(roc > threshold, False)\n    flag_arr[np.flatnonzero(bad)] = QartodFlags.SUSPECT\n\n    # If the value is masked set the flag to MISSING\n    flag_arr[np.ma.getmaskarray(inp)] = QartodFlags.MISSING\n",
     "rate_of_change flags through explicit index arrays"),
    ("density_unknown_for_single_missing", "ioos_qc/qartod.py",
     "    if inp.size < 2:\n        flag_arr[0] = QartodFlags.UNKNOWN\n        return flag_arr\n",
     "    if inp.size < 2:\n        flag_arr[0] = QartodFlags.MISSING if (inp.mask[0] or zinp.mask[0]) else QartodFlags.UNKNOWN\n        return flag_arr\n",
     "single missing density point reported MISSING instead of UNKNOWN (both allowed)"),
    ("cf_name_prefix_other", "ioos_qc/utils.py",
     "            name = f\"v_{name}\"\n",
     "            name = f\"var_{name}\"\n",
     "different prefix for names starting with a digit/underscore"),
    ("config_calls_tuple_kwargs", "ioos_qc/config.py",
     "                    kwargs = kwargs or {}\n",
     "                    kwargs = dict(kwargs) if kwargs else {}\n",
     "kwargs copied into a fresh dict"),
    ("gross_blocks_correct", "ioos_qc/qartod.py",
     "    # Flag suspect outside of sensor span\n    with np.errstate(invalid=\"ignore\"):\n        flag_arr[(inp < sspan.minv) | (inp > sspan.maxv)] = QartodFlags.FAIL\n\n    return flag_arr.reshape(original_shape)\n",
     "    # Flag suspect outside of sensor span (evaluated in blocks of 512 elements)\n    with np.errstate(invalid=\"ignore\"):\n        for start in range(0, inp.size, 512):\n            blk = inp[start:start + 512]\n            out = np.ma.filled((blk < sspan.minv) | (blk > sspan.maxv), False)\n            flag_arr[start:start + 512][out] = QartodFlags.FAIL\n\n    return flag_arr.reshape(original_shape)\n",
     "gross_range fail pass evaluated block-wise (correctly)"),
    ("spike_pooled_scratch_correct", "ioos_qc/qartod.py",
     "        ref = np.ma.zeros(inp.size, dtype=np.float64)\n        ref[1:-1] = (inp[0:-2] + inp[2:]) / 2\n        ref = np.ma.masked_invalid(ref)\n",
     "        global _SCRATCH\n        if \"_SCRATCH\" not in globals() or _SCRATCH.size < inp.size:\n            _SCRATCH = np.empty(max(inp.size, 512), dtype=np.float64)\n        buf = _SCRATCH[:inp.size]\n        buf[:] = 0.0   # re-initialised on every call\n        ref = np.ma.MaskedArray(buf.copy())\n        ref[1:-1] = (inp[0:-2] + inp[2:]) / 2\n        ref = np.ma.masked_invalid(ref)\n",
     "spike reference built from a pooled module-level scratch buffer that is re-initialised on every call"),
    ("mapdates_memo_correct", "ioos_qc/utils.py",
     "    try:\n        # Finally try unix epoch seconds\n        return (\n            pd.to_datetime(dates, unit=\"s\")\n            .to_numpy()\n            .astype(\n                \"datetime64[ns]\",\n            )\n        )\n",
     "    try:\n        # Finally try unix epoch seconds (memoised on the full content)\n        key = None\n        try:\n            arr = np.asarray(dates)\n            if arr.dtype.kind in \"iuf\":\n                key = (arr.dtype.str, arr.shape, arr.tobytes())\n        except Exception:  # noqa: BLE001\n            key = None\n        memo = mapdates.__dict__.setdefault(\"_memo\", {})\n        if key is not None and key in memo:\n            return memo[key].copy()\n        out = (\n            pd.to_datetime(dates, unit=\"s\")\n            .to_numpy()\n            .astype(\n                \"datetime64[ns]\",\n            )\n        )\n        if key is not None:\n            if len(memo) > 8:\n                memo.clear()\n            memo[key] = out.copy()\n        return out\n",
     "epoch-seconds conversion memoised on the full byte content of the axis"),
    ("fx_clear_stack_after", "ioos_qc/config_creator/fx_parser.py",
     "    val = evaluate_stack(exprStack[:], stats)\n",
     "    val = evaluate_stack(exprStack[:], stats)\n    del exprStack[:]\n",
     "parser stack emptied after a successful evaluation"),
]


def main():
    os.makedirs(OUT, exist_ok=True)
    idx = []
    for name, path, old, new, what in B:
        src = open(os.path.join(REPO, path)).read()
        if src.count(old) != 1:
            print(f"SKIP {name}: anchor found {src.count(old)} times", file=sys.stderr)
            continue
        dst = src.replace(old, new)
        diff = "".join(difflib.unified_diff(src.splitlines(True), dst.splitlines(True), f"a/{path}", f"b/{path}"))
        d = os.path.join(OUT, name)
        os.makedirs(d, exist_ok=True)
        open(os.path.join(d, "patch.diff"), "w").write(diff)
        idx.append(dict(name=name, what=what))
    json.dump(idx, open(os.path.join(OUT, "index.json"), "w"), indent=1)
    print(len(idx), "benign patches written")


if __name__ == "__main__":
    main()
