#!/venv/bin/python
"""Regenerates /verif/MANIFEST.json from the table below (kept valid at all times)."""
import json
import os
import sys

HERE = os.path.dirname(os.path.dirname(os.path.abspath(__file__)))

# property -> (design section, one-line level text, level note)
CLAIMED = {}
NOT_YET = {}


def claim(pid, design_ref, text, note, technique):
    CLAIMED[pid] = dict(design_ref=design_ref, text=text, note=note, technique=technique)


TECH_TREE = "explicit-state bounded exhaustive enumeration (prefix tree of inputs/configurations) executing the real code, judged by a scalar reference model on every state"
TECH_GRAPH = "explicit-state bounded exhaustive exploration of operation/event histories on the real code with confluence (order-independence) checks on every state"

exec(open(os.path.join(HERE, "tools", "claims.py")).read())

ALL = [f"C{i:02d}" for i in range(1, 21)]

sys.path.insert(0, HERE)


def scale_sentence(pid):
    """the 'Scale: ...' sentence of the check's own META rule (scale symbols, carriers and histories added on top of the small exhaustive space)"""
    try:
        import importlib

        rule = importlib.import_module(f"props.{pid.lower()}").META["rule"]
        k = rule.find("Scale:")
        if k < 0:
            return ""
        end = rule.find(" non-trivial", k)
        return " " + rule[k:end if end > 0 else None].strip()
    except Exception:  # noqa: BLE001
        return ""


checks = []
for pid in ALL:
    if pid not in CLAIMED:
        continue
    c = dict(CLAIMED[pid])
    c["text"] = c["text"] + scale_sentence(pid)
    checks.append(dict(
        property_id=pid,
        quick_cmd=f"./check {pid} --tier quick",
        thorough_cmd=f"./check {pid} --tier thorough",
        evidence_file=f"/verif/evidence/{pid}.json",
        replay_cmd_template="./check replay {path}",
        engine="mc-explorer",
        level_claimed=dict(category="model_checking", text=c["text"], design_ref=c["design_ref"]),
        level_note=c["note"],
        technique=c["technique"],
    ))

manifest = dict(
    version=1,
    setup_cmd="/venv/bin/python tools/setup_check.py",
    hooks=dict(
        guard="IOOS_QC_VERIF",
        enable="checks set IOOS_QC_VERIF=1 and import ioos_qc from /repo's working tree (pure Python, no build step)",
        baseline_off_cmd="cd /repo && env -u IOOS_QC_VERIF /venv/bin/python -m pytest -ra -q -p no:cacheprovider --timeout=900 --continue-on-collection-errors",
        source_commits=[],
        add_only=True,
    ),
    engines=[dict(
        name="mc-explorer", path="/verif/mc",
        serves_properties=sorted(CLAIMED),
        kind_free_text="hand-written explicit-state explorer for Python: enumerates every case of a bounded space "
                       "(series x configurations x histories x fault placements), executes the real ioos_qc code on each, "
                       "judges each state with scalar reference models / confluence relations; 16 forked workers",
    )],
    checks=checks,
    notes="All checks import ioos_qc from $IOOS_QC_REPO (default /repo) at run time; known findings are matched by signature from known_findings.json.",
    not_applicable=[dict(property_id=p, reason=NOT_YET.get(p, "check not built yet (work in progress; see DESIGN.md section 3)")) for p in ALL if p not in CLAIMED],
)
with open(os.path.join(HERE, "MANIFEST.json"), "w") as f:
    json.dump(manifest, f, indent=1)
try:
    import jsonschema
    jsonschema.validate(manifest, json.load(open("/root/.vp/MANIFEST.schema.json")))
    print("MANIFEST.json valid;", len(checks), "checks")
except FileNotFoundError:
    print("schema not found; wrote MANIFEST.json")
