#!/bin/bash
# usage: tools/try_mutant.sh <patch.diff> <PROP> [more props...]   (env TIER=quick|thorough)
# Applies the patch to a scratch copy of /repo's working tree (outside /repo and /verif), runs the check(s)
# against it with IOOS_QC_REPO, removes the copy.  Never touches /repo or /verif/evidence.
set -u
patch=$(realpath "$1"); shift
scratch=$(mktemp -d /tmp/mut.XXXXXX)
trap 'rm -rf "$scratch"' EXIT
rsync -a --exclude .git --exclude docs --exclude resources --exclude '*.egg-info' /repo/ "$scratch/"
if ! (cd "$scratch" && patch -p1 -s < "$patch"); then echo "PATCH-FAILED"; exit 3; fi
rc_all=0
for prop in "$@"; do
  IOOS_QC_REPO="$scratch" VERIF_REPLAY_DIR="$scratch/replays" /verif/check "$prop" --tier "${TIER:-quick}" --no-evidence | grep -E "VIOLATION|KNOWN|HARNESS|^\[" | sed "s#$scratch#<scratch>#g"
  rc=${PIPESTATUS[0]}; echo "  -> $prop rc=$rc"; [ "$rc" != 0 ] && rc_all=$rc
done
exit $rc_all
