#!/venv/bin/python
"""Writes mutants/RESULTS.md and seeded/RESULTS.md from the meta.json files."""
import glob, json, os
here = os.path.dirname(os.path.dirname(os.path.abspath(__file__)))
for sub in ("mutants", "seeded"):
    rows = []
    for mp in sorted(glob.glob(os.path.join(here, sub, "*", "meta.json"))):
        m = json.load(open(mp))
        name = os.path.basename(os.path.dirname(mp))
        suite = m.get("suite", {})
        rows.append((name, m.get("property"), "yes" if m.get("patch_applies") else "NO",
                     suite.get("summary", "not run")[:40] if suite else "not run",
                     {True: "fails/passes", False: "BAD", None: "-"}[m.get("demo_ok")],
                     ",".join(m.get("detected_by", [])) or "MISSED",
                     "; ".join(f"{c}:{v.get('rc')}" for c, v in sorted(m.get("checks", {}).items()))))
    if not rows:
        continue
    with open(os.path.join(here, sub, "RESULTS.md"), "w") as f:
        f.write(f"# {sub}: which check catches which change\n\n| change | property | patch applies | repo suite | demo (with/without) | detected by | check exit codes |\n|---|---|---|---|---|---|---|\n")
        for r in rows:
            f.write("| " + " | ".join(str(x) for x in r) + " |\n")
    print(sub, len(rows), "rows;", sum(1 for r in rows if r[5] == "MISSED"), "missed")
