#!/bin/bash
# import one finished wave-9 worktree: tools/import_w9.sh C04   (worktree /tmp/w9/C04)
set -e
p=$1; w=/tmp/w9/$p; cd /verif
[ -f $w/demo.py ] || { echo "$p: no demo"; exit 2; }
last=$(ls -d seeded/$p-* | tail -1 | sed 's/.*-//'); nxt=$(echo $last | tr 'a-y' 'b-z'); d=seeded/$p-$nxt
mkdir -p $d; git -C $w diff -- ioos_qc > $d/patch.diff; [ -s $d/patch.diff ] || { echo "$p: empty patch"; rmdir $d; exit 2; }
cp $w/demo.py $d/demo.py; [ -f $w/notes.md ] && cp $w/notes.md $d/notes.md
sed -i "s#/tmp/w9/$p#/repo#g" $d/demo.py
echo $p-$nxt >> seeded/wave9_members.txt
git -C /repo worktree remove --force $w
echo imported $d
