#!/venv/bin/python
"""usage: tools/add_finding.py <replay.json> known|fixed <commit-or-> "<what fails>" [name]
Copies the replay into findings/ and appends an entry to known_findings.json (developer tool; never run by a check)."""
import json, os, shutil, sys
here = os.path.dirname(os.path.dirname(os.path.abspath(__file__)))
src, status, commit, what = sys.argv[1:5]
body = json.load(open(src))
name = sys.argv[5] if len(sys.argv) > 5 else os.path.basename(src)[:-5]
dst = os.path.join(here, "findings", name + ".json")
os.makedirs(os.path.dirname(dst), exist_ok=True)
body.pop("replay_cmd", None)
json.dump(body, open(dst, "w"), indent=1, sort_keys=True)
kf = json.load(open(os.path.join(here, "known_findings.json")))
prefix = f"fixed: property={body['property']} {commit} " if status == "fixed" else ""
e = dict(property=body["property"], status=status, signature=body["signature"], what_fails=prefix + what,
         example_replay=os.path.relpath(dst, here))
if status == "fixed":
    e["commit"] = commit
kf["findings"] = [f for f in kf["findings"] if not (f["property"] == e["property"] and f["signature"] == e["signature"])] + [e]
json.dump(kf, open(os.path.join(here, "known_findings.json"), "w"), indent=1)
print("added", e["signature"])
