#!/venv/bin/python
"""Offline setup: nothing to build (pure Python); verify the interpreter has what the checks import."""
import importlib, sys
for m in ("numpy", "pandas", "xarray", "scipy", "jsonschema", "geographiclib", "ruamel.yaml", "pyparsing", "shapely", "dask"):
    importlib.import_module(m)
print("setup ok", sys.version.split()[0])
