#!/bin/bash
# every check listed for a benign (behaviour-preserving) patch must stay silent (exit 0) on it
cd "$(dirname "$0")/.."
declare -A CH=(
 [compare_by_rank]="C04,C19"
 [gross_plain_ndarray_int64]="C01,C02,C14,C15,C16,C17,C05"
 [spike_loop]="C09,C01,C16,C17,C15"
 [collect_no_shortcut]="C06,C05,C18,C19,C04"
 [pandas_positional_mask]="C05,C06,C18,C19"
 [roc_explicit_loop]="C10,C01,C02,C16,C17,C15"
 [density_unknown_for_single_missing]="C13,C02,C01,C16,C17"
 [cf_name_prefix_other]="C19"
 [config_calls_tuple_kwargs]="C07,C05,C18"
 [fx_clear_stack_after]="C20"
 [gross_blocks_correct]="C03,C01,C02,C15,C16,C17"
 [spike_pooled_scratch_correct]="C09,C01,C02,C17"
 [mapdates_memo_correct]="C15,C10,C11,C12,C01"
)
for name in "${!CH[@]}"; do
  /venv/bin/python tools/eval_seed.py benign/$name BENIGN --checks ${CH[$name]} $1
done
/venv/bin/python - <<'PY'
import json,glob,os
rows=[]
for f in sorted(glob.glob('benign/*/meta.json')):
    m=json.load(open(f)); name=f.split('/')[-2]
    alarms=[c for c,v in m.get('checks',{}).items() if v.get('rc')!=0]
    rows.append((name,(m.get('suite') or {}).get('summary','not run')[:34],','.join(sorted(m.get('checks',{}))),','.join(alarms) or 'none'))
open('benign/RESULTS.md','w').write('# benign refactors: checks must stay silent\n\n| patch | repo suite | checks run | alarms |\n|---|---|---|---|\n'+'\n'.join('| '+' | '.join(r)+' |' for r in rows)+'\n')
print(open('benign/RESULTS.md').read())
PY
