# executed by gen_manifest.py
claim("C09", "DESIGN.md 3/C09",
      "every series of length 1..5 (thorough 7) over a 5-symbol alphabet x both methods x 36 threshold pairs is run on the real spike_test and compared per point with a scalar reference; complete inside the bound, silent outside it; plus two long de Bruijn series (every length-4 window) and float32/float16 carriers at 2^24 / 2^11",
      "trusts the scalar reference model (refmodel/qc.py), numpy carriers built by the harness; values are region representatives (dyadic), lengths <= bound",
      TECH_TREE)
claim("C03", "DESIGN.md 3/C03",
      "all 272 (fail,suspect) span pairs over {0..3} and all 25 valid spans x 5 inclusivity settings are run on a product series with a value below/on/between/above every bound (3 orders) and on every series of length<=2 (thorough 3), numeric and datetime64; each call compared per point with the scalar reference; float32/float16 data vs non-dyadic limits; 2-D inputs in C/Fortran/transposed layout",
      "region abstraction: one representative per order region of every comparison; trusts refmodel/qc.py",
      TECH_TREE)
claim("C08", "DESIGN.md 3/C08",
      "every member list of length<=1 and a third (thorough: all) of the length-2 lists over a 135-member menu (9 time kinds x 3 depth spans x 5 value-span sets incl. fail span inside / overlapping the valid span, reversed spellings) [thorough: + length 3 over a 12-member sub-menu] is run on a 3332-point product series of calendar-edge instants x values x depths (3 orders, all-depth-missing, zinp=None) and on all short sequences; each point compared with a scalar reference using python's datetime calendar",
      "trusts python datetime (ISO week, day of year), refmodel/qc.py; absolute spans limited to two; <=3 members",
      TECH_TREE)
claim("C10", "DESIGN.md 3/C10",
      "every series of length<=4 (thorough 5) x every irregular gap sequence over {1,2,60,172800}s x 2 time carriers x 6 thresholds for rate_of_change_test, every track of length<=3 (thorough 4) over 8 positions x gaps x threshold pairs built from the track's own hop speeds for speed_test, and every unequal length combination; each call compared per point with the scalar reference",
      "trusts geographiclib as the distance oracle (called per pair with explicit lat/lon) and IEEE division",
      TECH_TREE)
claim("C11", "DESIGN.md 3/C11",
      "every series of length 0..5 (reduced duration grid at 6; thorough 7/8) over {0,1,3,NaN} x 3 sampling steps x 49 (suspect,fail) duration pairs (non-multiples, < one step, > series) x 5 tolerances is run on the real flat_line_test and compared per point with the scalar reference",
      "regular sampling only (as the statement); trusts refmodel/qc.py",
      TECH_TREE)
claim("C12", "DESIGN.md 3/C12",
      "every series of length 1..4 (thorough 5) x 5 regular/irregular time axes x both check types x whole-series and windowed modes x min_obs/min_period settings x threshold pairs on both sides of (and, for range, exactly on) the spread, compared per point with the scalar reference",
      "std within 1e-9 of a threshold skipped (statement excludes it); range windows holding a missing value accept UNKNOWN too",
      TECH_TREE)
claim("C13", "DESIGN.md 3/C13",
      "every density series of length 1..4 (thorough 5) x every depth profile from steps {+1,0,-1} x 36 threshold pairs incl. 0 (+ every placement of 1-2 missing depths) for density_inversion_test, and every pressure series of length 0..6 (thorough 8) over 4 levels, compared per point with the scalar reference; profile and reversed profile are both in the space (mirror relation)",
      "zero-mean pressure profiles and NaN pressures not judged; trusts refmodel/qc.py",
      TECH_TREE)
claim("C14", "DESIGN.md 3/C14",
      "every track of length<=2 over 36 positions around the box (length 3 over a 16-position sub-grid and over a 10-position globe menu; thorough: 3 over all 36) x 5 box spellings x range_max on both sides of and exactly on every hop distance, plus malformed boxes and unequal lengths, compared per point with the scalar reference",
      "trusts geographiclib as the distance oracle (explicit lat/lon per pair)",
      TECH_TREE)
claim("C04", "DESIGN.md 3/C04",
      "event graph over histories of flag vectors: every sequence of <=3 vectors (length<=2, entries over flags / non-flags / masked-with-adversarial-data) through qartod_compare, aggregate() and PandasStore.compute_aggregate()+save(), every split re-folded; each history compared with an order-free per-position reference, which decides commutativity, idempotence and associativity inside the bound; wide-dtype carriers with non-flag values that alias flags when narrowed; every 2-3 call sequence of roll-ups (state between calls)",
      "vectors of length<=2 (thorough 3), <=3 (thorough 4) vectors; trusts refmodel/qc.py aggregate()",
      TECH_GRAPH)
claim("C01", "DESIGN.md 3/C01",
      "prefix tree: 11 functions x 38 parameter sets x every series of length 0..5 (thorough 7) as ndarray and of length 0..4 as list (None/NaN) and masked arrays, each executed twice on the same argument objects with a call on another same-length series in between (no exception, one valid unmasked flag per element, shape, arguments byte-identical, repeat identical, returned array not modified later); event graph: every call history of depth<=3 (thorough 4) over 18 operations sharing the same argument objects (two input sets), every history started from freshly loaded modules - results and module state must be history independent",
      "does not judge which flag; 1-D inputs; None markers via list carriers only",
      TECH_TREE + "; " + TECH_GRAPH)
claim("C02", "DESIGN.md 3/C02",
      "for every missing-aware test x parameter set (every climatology member shape, one- and two-member lists): every series of length 0..4 (thorough 5) over {v1,v2,missing} with NaN/None spellings x the full product of presence masks of depth (2^n) or lon/lat (4^n); per position: missing observation -> MISSING (UNKNOWN only where the test is undefined), present observation MISSING only if a needed input is missing",
      "does not judge which of GOOD/SUSPECT/FAIL; 'undefined irrespective of the value' is decided by the scalar reference",
      TECH_TREE)
claim("C15", "DESIGN.md 3/C15",
      "for each of the 11 tests every logical series of length 0..3 (thorough 4) over {1,3,missing} is run with canonical carriers and with each of 18 data/aux carriers and 17 time carriers substituted one input at a time (and every data x time carrier pair for length<=2, spans as tuples); flags must equal the canonical ones",
      "differential oracle (no reference model); integer carriers only without missing values; epoch seconds inside a pandas Series not judged",
      TECH_TREE)
claim("C16", "DESIGN.md 3/C16",
      "for each of 10 threshold-driven tests every series of the bounded space is executed at every point of a 6-75 point parameter lattice and every ordered comparable (loose<=strict) pair is compared pointwise: severity never decreases, UNKNOWN/MISSING sets identical (quick: 0.4 M executions, 4.8 M pair comparisons)",
      "metamorphic (no reference model); only comparable pairs judged; lattices are finite menus of thresholds/spans",
      TECH_TREE + " + all-pairs relation check on the explored states")
claim("C17", "DESIGN.md 3/C17",
      "for every (test, relation) of the statement every series of length 0..4 (thorough 5) x parameter sets is re-executed under every value offset, negation, time shift (incl. half-second and pre-1970), joint data+span shift, reversal and every single-point perturbation (each position x each other symbol); flags must be identical / mirrored / unchanged outside the neighbourhood",
      "metamorphic (no reference model); dyadic values so transformations are exact; std cases within 1e-6 of a threshold skipped",
      TECH_TREE + " + metamorphic relation check between pairs of explored states")
claim("C05", "DESIGN.md 3/C05",
      "configs-as-programs x tables x 9 front-end variants: tables of 1..4 rows (thorough 0..6) with/without z and lat/lon, one-context programs with every window over a grid that puts rows exactly on starting and on ending (closed, half-open, empty, inverted), two-context programs over every ordered pair of coarse windows, 1-2 streams, probe / neighbour- / time- / depth- / position-dependent tests; every configured (context, stream, test) must yield exactly one result with the reference row mask and the flags of the direct call on those rows (the probe also checks the arguments it received); three-context programs A,B,A; tables with shuffled and missing (NaT) times; a test on the depth column itself; Config-reuse histories",
      "reference = the real test function called directly (refinement statement); XarrayStream with time as a non-coordinate variable ignores windows (known finding, 4 signatures); region subsetting not judged",
      TECH_TREE)
claim("C06", "DESIGN.md 3/C06",
      "event graph over histories of ContextResults fed to the real collect_results: every sequence of <=3 (thorough 4) events over every contiguous window (incl. empty and all-covering) x 3 (stream,test) keys with pairwise-disjoint same-key windows, in every order, with axis arrays present and absent, through list and dict form; plus real stream runs over disjoint windows in every permutation of the yield order; compared with an order-free reference built from the event set (confluence)",
      "4 rows (thorough 5); data/axis values on uncovered rows not judged",
      TECH_GRAPH)
claim("C07", "DESIGN.md 3/C07",
      "2276 abstract configs from a bounded grammar (1-2 contexts, 1-2 streams, every subset of <=2 entries of an 8-entry test menu incl. unknown test/module, windows, GeoJSON regions; thorough: subsets of <=3) are rendered in every expressible layout (4) and carrier (13: dict, OrderedDict, YAML/JSON text, StringIO, str/Path files, xarray global attribute, per-variable attributes; thorough + NetCDF file) and loaded by the real Config; calls/contexts/Call.config() must equal the call set computed from the abstract config; double load of the same source object; load histories rewriting one file path; cross-module test names",
      "harness renderings are self-checked for round trip; shapely builds the expected region; parameters that are themselves mappings not generated",
      TECH_TREE)
claim("C18", "DESIGN.md 3/C18",
      "fault enumeration: configs with 1-2 healthy tests and every placement of 1-2 (thorough 3) failing entries from 8 fault kinds (unknown module/test, rejected parameters, missing required input, raising function, aggregate entry, absent stream id) - in the same stream in every order, in another stream, in another context with/without a window - on 9 front-end variants, collected as list and dict; the run must complete, failing entries contribute nothing, every healthy result equals the result of the configuration containing only that entry; also NumpyStream with a dict input and no time axis, XarrayStream with a second variable on another dimension, two adjacent absent entries",
      "differential oracle on the same front end; 4 rows (thorough 3-5); absent stream ids not judged on array-input front ends",
      "exhaustive enumeration of fault placements (explicit-state, bounded) executing the real stream/config/collector code")
claim("C19", "DESIGN.md 3/C19",
      "189 stream runs (every set of 1-2 stream ids incl. CF-unsafe ones x test subsets x 3 window layouts) x every save variant (write_data x write_axes, include/exclude over every list of <=2 items of stream ids / test names / functions, single-item include x exclude pairs) with and without compute_aggregate: rows, column set, CF-safe names, values with NaN where unevaluated, axis/data columns, filter semantics and the roll-up column are compared with a reference frame; cf_safe_name on every string of length<=3 over 9 characters; context layout 'partial then all-covering', a save before compute_aggregate, a non-qartod test (axds.valid_range_test)",
      "tables always have all axes; frames with no column and colliding sanitised ids not judged; roll-up judged without filters",
      TECH_TREE)
claim("C20", "DESIGN.md 3/C20",
      "(a) every expression tree of depth<=2 (thorough 3) over numbers/statistics/+-*/ /unary minus in minimal and fully parenthesised form x 3 statistics tuples through the real eval_fx vs python operator evaluation; (b) event graph: every evaluation history of depth<=3 (thorough 4) over 8 valid and 5 failing expressions on the real module-level parser stack - every valid expression evaluates in every state to its empty-history value; (c) every token string of length<=3 over 16 tokens through QcVariableConfig; (d) QcConfigCreator on synthetic time-constant NetCDF-3 climatologies: 4 cell patterns x 2-d/3-d x every index-aligned box x 4 date ranges x 3 expression sets; validator also with 2-3 tests sharing limit names and with the empty token; request histories on one creator",
      "division-by-zero expressions and full-year date ranges not judged; tolerance 1e-12 / 1e-9",
      TECH_TREE + "; " + TECH_GRAPH)
