# executed by gen_manifest.py
claim("C09", "DESIGN.md 3/C09",
      "every series of length 1..5 (thorough 7) over a 5-symbol alphabet x both methods x 36 threshold pairs is run on the real spike_test and compared per point with a scalar reference; complete inside the bound, silent outside it",
      "trusts the scalar reference model (refmodel/qc.py), numpy carriers built by the harness; values are region representatives (dyadic), lengths <= bound",
      TECH_TREE)
