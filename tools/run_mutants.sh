#!/bin/bash
# Evaluates every hand-written mutant under /verif/mutants against the check of the property it targets.
# usage: tools/run_mutants.sh [--suite] [name-prefix]
cd "$(dirname "$0")/.."
suite="--skip-suite"; [ "$1" = "--suite" ] && { suite=""; shift; }
pref="$1"
/venv/bin/python - "$pref" <<'PY' > /tmp/mutant_list.txt
import json,sys
for m in json.load(open('mutants/index.json')):
    if m['name'].startswith(sys.argv[1]): print(m['name'], m['property'])
PY
while read name prop; do
  /venv/bin/python tools/eval_seed.py mutants/$name $prop $suite
done < /tmp/mutant_list.txt
/venv/bin/python tools/mutant_report.py
