#!/bin/bash
# usage: tools/run_all.sh [quick|thorough] [props...]   - runs the checks sequentially on /repo and rewrites evidence
cd "$(dirname "$0")/.."
tier=${1:-quick}; shift
props=${@:-$(seq -f "C%02g" 1 20)}
rc_all=0
for p in $props; do
  out=$(./check $p --tier $tier 2>&1); rc=$?
  echo "$out" | grep -E "^\[|VIOLATION|HARNESS" | cut -c1-220
  echo "   -> $p rc=$rc"
  [ $rc -ne 0 ] && rc_all=1
done
exit $rc_all
