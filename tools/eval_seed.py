#!/venv/bin/python
"""Evaluate one seeded change:  tools/eval_seed.py <seed_dir> <PROP> [--checks C01,C05|all] [--tier quick] [--skip-suite]

<seed_dir> holds patch.diff and demo.py (and optionally notes.md).  The patch is applied to a scratch copy of
/repo's working tree (outside /repo and /verif), then
  1. the repository's pinned test command is run on the copy (must still be 132 passed / 10 failed),
  2. demo.py is run against the copy (must fail) and against /repo (must pass),
  3. the requested checks are run against the copy (IOOS_QC_REPO) without touching /verif/evidence,
and the outcome is written to <seed_dir>/meta.json.  The scratch copy is removed afterwards.
"""
import argparse
import json
import os
import re
import shutil
import subprocess
import sys
import tempfile
import time

VERIF = os.path.dirname(os.path.dirname(os.path.abspath(__file__)))
ALL = [f"C{i:02d}" for i in range(1, 21)]


def sh(cmd, **kw):
    return subprocess.run(cmd, shell=True, capture_output=True, text=True, **kw)


def main():
    ap = argparse.ArgumentParser()
    ap.add_argument("seed_dir")
    ap.add_argument("prop")
    ap.add_argument("--checks", default=None)
    ap.add_argument("--tier", default="quick")
    ap.add_argument("--skip-suite", action="store_true")
    a = ap.parse_args()
    sd = os.path.abspath(a.seed_dir)
    checks = ALL if a.checks == "all" else ([] if a.checks == "none" else (a.checks.split(",") if a.checks else [a.prop]))
    scratch = tempfile.mkdtemp(prefix="seed_", dir="/tmp")
    meta = dict(property=a.prop, seed=os.path.basename(sd), evaluated_at=time.strftime("%Y-%m-%dT%H:%M:%S"), tier=a.tier)
    old = os.path.join(sd, "meta.json")
    if os.path.exists(old):
        try:
            prev = json.load(open(old))
            for k in ("needs_to_manifest", "what_changed", "suite", "demo_with_change_rc", "demo_without_change_rc"):
                if k in prev:
                    meta[k] = prev[k]
            meta["checks"] = prev.get("checks", {})
        except Exception:  # noqa: BLE001
            pass
    meta.setdefault("checks", {})
    notes = os.path.join(sd, "notes.md")
    if "needs_to_manifest" not in meta and os.path.exists(notes):
        meta["needs_to_manifest"] = " ".join(open(notes).read().split())[:900]
    try:
        sh(f"rsync -a --exclude .git --exclude docs --exclude '*.egg-info' /repo/ {scratch}/")
        r = sh(f"cd {scratch} && patch -p1 -s < {sd}/patch.diff")
        meta["patch_applies"] = r.returncode == 0
        if r.returncode != 0:
            meta["patch_error"] = (r.stdout + r.stderr)[-400:]
            return finish(sd, meta, scratch)
        if a.skip_suite and "suite" in meta:
            pass
        elif not a.skip_suite:
            r = sh(f"cd {scratch} && env -u IOOS_QC_VERIF /venv/bin/python -m pytest -q -p no:cacheprovider --timeout=900 --continue-on-collection-errors 2>&1 | tail -3")
            line = r.stdout.strip().splitlines()[-1] if r.stdout.strip() else ""
            m_p = re.search(r"(\d+) passed", line)
            m_f = re.search(r"(\d+) failed", line)
            meta["suite"] = dict(summary=line, passed=int(m_p.group(1)) if m_p else 0, failed=int(m_f.group(1)) if m_f else 0)
            meta["suite"]["ok"] = meta["suite"]["passed"] == 132 and meta["suite"]["failed"] == 10
        if os.path.exists(os.path.join(sd, "demo.py")) and not (a.skip_suite and "demo_with_change_rc" in meta):
            r1 = sh(f"cd /tmp && IOOS_QC_REPO={scratch} PYTHONPATH={scratch} /venv/bin/python {sd}/demo.py")
            r0 = sh(f"cd /tmp && IOOS_QC_REPO=/repo PYTHONPATH=/repo /venv/bin/python {sd}/demo.py")
            meta["demo_with_change_rc"] = r1.returncode
            meta["demo_without_change_rc"] = r0.returncode
            meta["demo_ok"] = r1.returncode != 0 and r0.returncode == 0
        for c in checks:
            env = dict(os.environ, IOOS_QC_REPO=scratch, VERIF_REPLAY_DIR=os.path.join(scratch, "replays"))
            t0 = time.time()
            r = subprocess.run([os.path.join(VERIF, "check"), c, "--tier", a.tier, "--no-evidence"], capture_output=True, text=True, env=env, cwd=VERIF)
            nv = len([l for l in r.stdout.splitlines() if l.startswith("VIOLATION")])
            sigs = [l.strip()[11:].split(" :: ")[0] for l in r.stdout.splitlines() if l.strip().startswith("violation:")][:5]
            meta["checks"][c] = dict(rc=r.returncode, violations=nv, detected=(r.returncode == 1 and nv > 0), first_signatures=sigs, wall_s=round(time.time() - t0, 1), tier=a.tier)
            if r.returncode not in (0, 1):
                meta["checks"][c]["stderr_tail"] = (r.stdout[-300:] + r.stderr[-600:])
        if "demo_with_change_rc" in meta:
            meta["demo_ok"] = meta["demo_with_change_rc"] != 0 and meta["demo_without_change_rc"] == 0
        meta["detected_by"] = sorted(c for c, v in meta["checks"].items() if v.get("detected"))
    finally:
        pass
    return finish(sd, meta, scratch)


def finish(sd, meta, scratch):
    shutil.rmtree(scratch, ignore_errors=True)
    with open(os.path.join(sd, "meta.json"), "w") as f:
        json.dump(meta, f, indent=1)
    print(json.dumps({k: meta.get(k) for k in ("property", "seed", "patch_applies", "suite", "demo_ok", "detected_by")}, indent=None))
    return 0


if __name__ == "__main__":
    sys.exit(main())
