#!/bin/bash
# Copies finished sub-agent outputs /tmp/sa/Cxx/out/{a,b} into /verif/seeded/Cxx-{a,b} (patch.diff, demo.py, notes.md).
cd "$(dirname "$0")/.."
for d in /tmp/sa/C*/out/[ab]; do
  [ -s "$d/patch.diff" ] && [ -s "$d/demo.py" ] || continue
  id=$(echo $d | sed 's#/tmp/sa/\(C[0-9]*\)/out/\([ab]\)#\1-\2#')
  mkdir -p seeded/$id
  cp "$d/patch.diff" "$d/demo.py" seeded/$id/
  [ -f "$d/notes.md" ] && cp "$d/notes.md" seeded/$id/
done
ls seeded | wc -l
