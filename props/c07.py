"""C07 - every equivalent spelling of a configuration yields the same set of calls."""
from __future__ import annotations

import io
import itertools
import json
import os
import shutil
import tempfile
from collections import OrderedDict
from pathlib import Path

import numpy as np

from mc import alpha

from .common import V, run_cases

PROP = "C07"
BUDGET = {"quick": 900, "thorough": 3400}

META = dict(
    rule="bounded grammar over an abstract config: 1-2 contexts x 1-2 streams x every subset of <=2 (thorough 3) entries "
         "from a 10-entry menu (gross_range [list params], spike [scalars], climatology [nested list of dicts], location "
         "[4-list + scalar], pressure_increasing [no parameters, spelt {} and null], valid_range [booleans], an unknown "
         "test name, an unknown module, a test name valid in argo but configured under qartod, and the same name under argo) x window {absent, both bounds, starting only, ending only, both with 'ending' written first} x region {absent, GeoJSON "
         "geometry, FeatureCollection}; each abstract config is rendered in every layout that can express it (contexts "
         "list / single context / bare stream mapping / bare module mapping) and every carrier (dict, OrderedDict (each loaded twice from the same object), YAML "
         "text, JSON text, StringIO of both (also with the cursor after the first line / mid-buffer / at the end after write()), str and Path to .yaml/.json files, xarray Dataset global attribute with "
         "YAML/JSON, Dataset per-variable attributes) and loaded by the real Config; Config.calls / .contexts / "
         "Call.config() must equal (also for three-context configs whose first and last context share a window, and for "
         "load histories that rewrite the same file path with another config) the call set computed from the abstract config (one call per known (stream, module, "
         "test) with exactly the configured kwargs, window, region). Scale: a stream with tests of 4-5 top-level modules (known and unknown); histories of 40 and 300 configurations (windows, two region shapes) parsed and dropped one after another in one process, as dict / YAML / JSON. non-trivial = not the plain dict contexts-list spelling",
    bounds={"quick": {"entries_per_stream": 2, "streams": 2, "contexts": 2}, "thorough": {"entries_per_stream": 3, "streams": 2, "contexts": 2}},
    not_judged=["unquoted YAML timestamps (become datetime objects)", "test parameters whose value is itself a mapping (no shipped test has one)"],
    assumptions=["ruamel/json dumps of the harness round-trip (self-checked before use)", "shapely builds the expected region geometry"],
)

MENU = [
    ("qartod", "gross_range_test", dict(fail_span=[0, 10], suspect_span=[1, 9]), True),
    ("qartod", "spike_test", dict(suspect_threshold=1.5, fail_threshold=3), True),
    ("qartod", "climatology_test", dict(config=[dict(tspan=[1, 3], vspan=[2.5, 9], period="month"), dict(tspan=[4, 12], vspan=[1, 8], fspan=[0, 10], zspan=[0, 100], period="month")]), True),
    ("qartod", "location_test", dict(bbox=[-80, 40, -70, 60], range_max=3000), True),
    ("argo", "pressure_increasing_test", None, True),
    ("axds", "valid_range_test", dict(valid_span=[0, 5], start_inclusive=False, end_inclusive=True), True),
    ("qartod", "not_a_test", dict(x=1), False),
    ("not_a_module", "some_test", dict(y=[1, 2]), False),
    ("qartod", "speed_test", dict(suspect_threshold=1, fail_threshold=3), False),   # a real test name, but of another module
    ("argo", "speed_test", dict(suspect_threshold=1, fail_threshold=3), True),
    ("other_pkg", "x_test", dict(a=1), False),
    ("qartod", "rate_of_change_test", dict(threshold=1e-05), True),        # numbers that JSON spells with a bare exponent
    ("vendor.checks", "some_test", dict(z=2e+16, w=[2e-07, 1]), False),    # unknown module with a dotted name
]
WINDOWS = [None, dict(starting="2020-01-01T00:00:00", ending="2020-04-01T00:00:00"), dict(starting="2021-06-01T12:30:00"),
           dict(ending="2022-02-01T00:00:00"), dict(ending="2020-09-01T00:00:00", starting="2020-08-01T00:00:00")]  # ending only; ending written first
POLY = dict(type="Polygon", coordinates=[[[-75.0, 40.0], [-70.0, 40.0], [-70.0, 45.0], [-75.0, 45.0], [-75.0, 40.0]]])
POINT = dict(type="Point", coordinates=[-72.0, 42.0])
REGIONS = [None, dict(type="Feature", properties={}, geometry=POLY),
           dict(type="FeatureCollection", features=[dict(type="Feature", properties={}, geometry=POLY), dict(type="Feature", properties={}, geometry=POINT)])]


# ---------------------------------------------------------------- abstract config -> concrete dict / expected calls
def stream_map(entries, null_style):
    """entries: list of menu indexes -> {module: {test: kwargs}}"""
    out = {}
    for e in entries:
        mod, test, kw, _ = MENU[e]
        if kw is None:
            val = None if null_style == "null" else {}
        else:
            val = json.loads(json.dumps(kw))
        out.setdefault(mod, {})[test] = val
    return out


def concrete(ast, layout):
    """ast = dict(contexts=[dict(window=i, region=i, streams={sid: [entries]})], null=style)"""
    ctxs = []
    for c in ast["contexts"]:
        d = {}
        if c["window"]:
            d["window"] = dict(WINDOWS[c["window"]])
        if c["region"]:
            d["region"] = json.loads(json.dumps(REGIONS[c["region"]]))
        d["streams"] = {sid: stream_map(es, ast["null"]) for sid, es in c["streams"].items()}
        ctxs.append(d)
    if layout == "contexts":
        return {"contexts": ctxs}
    if layout == "context":
        return ctxs[0]
    if layout == "streams":
        return ctxs[0]["streams"]
    if layout == "modules":
        return next(iter(ctxs[0]["streams"].values()))
    raise KeyError(layout)


def layouts_for(ast):
    ls = ["contexts"]
    if len(ast["contexts"]) == 1:
        c = ast["contexts"][0]
        ls.append("context")
        if not c["window"] and not c["region"]:
            ls.append("streams")
            if len(c["streams"]) == 1:
                ls.append("modules")
    return ls


def expected_calls(ast, layout):
    from shapely.geometry import GeometryCollection, shape

    out = []
    for c in ast["contexts"]:
        w = WINDOWS[c["window"]] if c["window"] else {}
        reg = None
        if c["region"]:
            r = REGIONS[c["region"]]
            geoms = [shape(f["geometry"]) for f in r["features"]] if "features" in r else [shape(r["geometry"])]
            reg = GeometryCollection(geoms).wkt
        for sid, es in c["streams"].items():
            for e in es:
                mod, test, kw, known = MENU[e]
                if not known:
                    continue
                out.append(dict(stream="_stream" if layout == "modules" else sid, module=mod, method=test, kwargs=kw or {},
                                starting=w.get("starting"), ending=w.get("ending"), region=reg))
    return out


def canon(call_dicts):
    return sorted(json.dumps(c, sort_keys=True, default=str) for c in call_dicts)


# ---------------------------------------------------------------- carriers
_TMP = None


def tmpdir():
    global _TMP
    if _TMP is None or not os.path.isdir(_TMP):
        _TMP = tempfile.mkdtemp(prefix="verif_c07_")
        import atexit

        atexit.register(shutil.rmtree, _TMP, True)
    return _TMP


def yaml_text(d, flow=False):
    from ruamel.yaml import YAML

    y = YAML(typ="safe")
    y.default_flow_style = True if flow else False   # flow style: {a: {b: [1, 2]}} - valid YAML, not JSON (unquoted keys)
    buf = io.StringIO()
    y.dump(d, buf)
    text = buf.getvalue()
    if YAML(typ="safe").load(text) != d:
        raise AssertionError("harness: YAML rendering does not round-trip")
    return text


def carriers_for(layout, tier):
    cs = ["dict", "odict", "yaml", "yamlflow", "sio_yamlflow", "xr_global_yamlflow", "json", "sio_yaml", "sio_json", "path_yaml_str", "path_yaml_Path", "path_json_str", "path_json_Path", "xr_global_yaml", "xr_global_json",
          "sio_yaml_peeked", "sio_json_mid", "sio_yaml_written"]
    if layout == "streams":
        cs.append("xr_vars")
    if tier == "thorough":
        cs += ["nc_path_global"]
    return cs


def to_odict(d):
    if isinstance(d, dict):
        return OrderedDict((k, to_odict(v)) for k, v in d.items())
    if isinstance(d, list):
        return [to_odict(v) for v in d]
    return d


def render(d, carrier):
    """-> (source object, cleanup callable or None)"""
    import xarray as xr

    if carrier == "dict":
        return json.loads(json.dumps(d)), None
    if carrier == "odict":
        return to_odict(d), None
    if carrier == "yaml":
        return yaml_text(d), None
    if carrier == "yamlflow":
        return "  " + yaml_text(d, flow=True), None    # (with leading blanks)
    if carrier == "sio_yamlflow":
        return io.StringIO(yaml_text(d, flow=True)), None
    if carrier == "xr_global_yamlflow":
        ds = xr.Dataset({"v1": ("t", np.arange(3.0))})
        ds.attrs["ioos_qc_config"] = yaml_text(d, flow=True)
        return ds, None
    if carrier == "json":
        return json.dumps(d), None
    if carrier == "sio_yaml":
        return io.StringIO(yaml_text(d)), None
    if carrier == "sio_json":
        return io.StringIO(json.dumps(d)), None
    # the same buffers with the cursor elsewhere than at the start: the configuration is the buffer's text
    if carrier == "sio_yaml_peeked":
        b = io.StringIO(yaml_text(d))
        b.readline()
        return b, None
    if carrier == "sio_json_mid":
        t = json.dumps(d)
        b = io.StringIO(t)
        b.seek(len(t) // 2)
        return b, None
    if carrier == "sio_yaml_written":
        b = io.StringIO()
        b.write(yaml_text(d))
        return b, None
    if carrier.startswith("path_"):
        _, fmt, kind = carrier.split("_")
        fd, p = tempfile.mkstemp(suffix="." + fmt, dir=tmpdir())
        with os.fdopen(fd, "w") as f:
            f.write(yaml_text(d) if fmt == "yaml" else json.dumps(d))
        return (p if kind == "str" else Path(p)), (lambda: os.remove(p))
    if carrier in ("xr_global_yaml", "xr_global_json"):
        ds = xr.Dataset({"v1": ("t", np.arange(3.0))})
        ds.attrs["ioos_qc_config"] = yaml_text(d) if carrier.endswith("yaml") else json.dumps(d)
        return ds, None
    if carrier == "nc_path_global":
        ds = xr.Dataset({"v1": ("t", np.arange(3.0))})
        ds.attrs["ioos_qc_config"] = json.dumps(d)
        fd, p = tempfile.mkstemp(suffix=".nc", dir=tmpdir())
        os.close(fd)
        ds.to_netcdf(p, engine="scipy")
        return p, (lambda: os.remove(p))
    if carrier == "xr_vars":
        vars_ = {}
        k = 0
        for sid, mods in d.items():
            vars_[sid] = ("t", np.arange(3.0))
        ds = xr.Dataset(vars_)
        for sid, mods in d.items():
            for mod, tests in mods.items():
                for test, kw in tests.items():
                    name = f"qc_{k}"
                    k += 1
                    ds[name] = ("t", np.zeros(3, dtype="uint8"))
                    ds[name].attrs.update(ioos_qc_module=mod, ioos_qc_test=test, ioos_qc_target=sid, ioos_qc_config=json.dumps(kw or {}))
        return ds, None
    raise KeyError(carrier)


def observe(cfg):
    out = []
    for c in cfg.calls:
        reg = c.region.wkt if c.region is not None else None
        out.append(dict(stream=c.stream_id, module=c.module, method=c.method, kwargs=json.loads(json.dumps(dict(c.kwargs), default=str)),
                        starting=c.window.starting, ending=c.window.ending, region=reg))
    return out


def check_path_reuse(case):
    """history: write config A to a path, load it, overwrite the same path with config B, load again"""
    import importlib

    from ioos_qc import config as cfgmod
    from ioos_qc import utils

    importlib.reload(utils)
    cfgmod = importlib.reload(cfgmod)
    fmt, kind = case["fmt"], case["kind_"]
    p = os.path.join(tmpdir(), f"reuse_{os.getpid()}.{fmt}")
    vs = []
    obs = []
    try:
        for step, ast in enumerate(case["asts"]):
            d = concrete(ast, "contexts")
            with open(p, "w") as f:
                f.write(yaml_text(d) if fmt == "yaml" else json.dumps(d))
            cfg = alpha.call(cfgmod.Config, p if kind == "str" else Path(p))
            exp = canon(expected_calls(ast, "contexts"))
            if isinstance(cfg, alpha.Raised):
                vs.append(V(f"{PROP}|path-reuse|load#{min(step, 1) + 1}|symptom=raises:{cfg.name}", f"Config(path) raised {cfg.name}: {cfg.msg}", exp, repr(cfg)))
                break
            got = canon(observe(cfg))
            obs.append(tuple(got))
            if got != exp:
                vs.append(V(f"{PROP}|path-reuse|load#{min(step, 1) + 1}|symptom=stale-or-wrong-calls",
                            f"Config(<same path>) after the file was rewritten returns calls that are not those of the file's current content", exp, got))
                break
    finally:
        if os.path.exists(p):
            os.remove(p)
    return vs, True, tuple(obs), 0, len(case["asts"])


def check_many_loads(case):
    """history: a long-lived process parses one configuration after another (each dropped before the next is built);
    every one of them must mean what its own text says"""
    import gc
    import importlib

    from ioos_qc import config as cfgmod
    from ioos_qc import utils

    importlib.reload(utils)
    cfgmod = importlib.reload(cfgmod)
    vs = []
    n = case["loads"]
    obs = []
    for k in range(n):
        r = 1 + (k * 7 + k // 5) % 2 if case["regions"] else 0
        w = (k * 3) % 5
        ast = dict(contexts=[dict(window=w, region=r, streams={"v1": [k % 6], "v2": [(k + 2) % 6]}),
                             dict(window=(w + 1) % 5, region=(3 - r) if r else 0, streams={"v1": [(k + 1) % 6]})], null="null")
        d = concrete(ast, "contexts")
        src = d if case["carrier"] == "dict" else (yaml_text(d) if case["carrier"] == "yaml" else json.dumps(d))
        cfg = alpha.call(cfgmod.Config, src)
        exp = canon(expected_calls(ast, "contexts"))
        if isinstance(cfg, alpha.Raised):
            vs.append(V(f"{PROP}|many-loads|carrier={case['carrier']}|symptom=raises:{cfg.name}", f"load #{k + 1} in one process raised {cfg.name}: {cfg.msg}", exp, repr(cfg)))
            break
        got = canon(observe(cfg))
        if got != exp:
            field = "region" if [json.loads(c)["region"] for c in got] != [json.loads(c)["region"] for c in exp] else "calls"
            vs.append(V(f"{PROP}|many-loads|carrier={case['carrier']}|symptom=wrong-{field}-after-many-loads",
                        f"configuration #{k + 1} parsed in one process does not mean what its text says ({field})", exp, got, size=k))
            break
        obs.append(hash(tuple(got)) & 0xFFFF)
        del cfg, d, src
        if k % 16 == 0:
            gc.collect()
    return vs, True, tuple(obs[:8]), 0, n


def check_case(case):
    from ioos_qc.config import Config

    if "asts" in case:
        return check_path_reuse(case)
    if "loads" in case:
        return check_many_loads(case)
    ast, layout, carrier = case["ast"], case["layout"], case["carrier"]
    d = concrete(ast, layout)
    exp = expected_calls(ast, layout)
    src, cleanup = render(d, carrier)
    try:
        cfg = alpha.call(Config, src)
        if carrier in ("dict", "odict", "xr_global_json", "xr_vars") and not isinstance(cfg, alpha.Raised):
            # the same source OBJECT is loaded a second time: it must still mean the same
            cfg2 = alpha.call(Config, src)
            if isinstance(cfg2, alpha.Raised) or canon(observe(cfg2)) != canon(observe(cfg)):
                cfg = cfg2 if isinstance(cfg2, alpha.Raised) else cfg2
                case = dict(case, second_load=True)
    finally:
        if cleanup:
            cleanup()
    nt = not (layout == "contexts" and carrier == "dict")
    entries = sorted({MENU[e][1] for c in ast["contexts"] for es in c["streams"].values() for e in es})
    shape_sig = f"layout={layout}|carrier={carrier}" + ("|second-load-of-the-same-object" if case.get("second_load") else "")
    vs = []
    if isinstance(cfg, alpha.Raised):
        vs.append(V(f"{PROP}|{shape_sig}|symptom=raises:{cfg.name}", f"Config({carrier}) raised {cfg.name}: {cfg.msg}", canon(exp), repr(cfg)))
        return vs, nt, ("exc", cfg.name), 0
    got = alpha.call(observe, cfg)
    if isinstance(got, alpha.Raised):
        vs.append(V(f"{PROP}|{shape_sig}|symptom=calls-unreadable:{got.name}", f"reading Config.calls raised {got.name}: {got.msg}", canon(exp), repr(got)))
        return vs, nt, ("exc2", got.name), 0
    ce, cg = canon(exp), canon(got)
    if ce != cg:
        keyf = lambda c: (c["stream"], c["module"], c["method"])
        ke, kg = sorted(map(keyf, exp)), sorted(map(keyf, got))
        if ke != kg:
            missing = [k for k in ke if k not in kg]
            extra = [k for k in kg if k not in ke]
            what = "missing-calls" if missing and not extra else ("extra-calls" if extra and not missing else "wrong-call-set")
            nullish = any(MENU[e][2] is None for c in ast["contexts"] for es in c["streams"].values() for e in es) and ast["null"] == "null"
            only_null = all(MENU[e][2] is None or not MENU[e][3] for c in ast["contexts"] for es in c["streams"].values() for e in es)
            vs.append(V(f"{PROP}|{shape_sig}|symptom={what}|null-params={nullish}|only-null-params={only_null}|none-found={not got}",
                        f"Config({carrier}, layout {layout}) exposes calls {kg}, configured {ke}", ce, cg))
        else:
            field = next((f for f in ("kwargs", "starting", "ending", "region") if sorted(json.dumps(c[f], sort_keys=True, default=str) for c in exp) != sorted(json.dumps(c[f], sort_keys=True, default=str) for c in got)), "pairing")
            vs.append(V(f"{PROP}|{shape_sig}|symptom=wrong-{field}", f"Config({carrier}, layout {layout}) calls carry a different {field}", ce, cg))
    else:
        # .contexts grouping and Call.config()
        ctxs = alpha.call(lambda: {k: list(v) for k, v in cfg.contexts.items()})
        if isinstance(ctxs, alpha.Raised):
            vs.append(V(f"{PROP}|{shape_sig}|symptom=contexts-raises:{ctxs.name}", f"Config.contexts raised {ctxs.name}", None, repr(ctxs)))
        else:
            flat = [c for calls in ctxs.values() for c in calls]
            if len(flat) != len(cfg.calls) or any(c.context != k for k, calls in ctxs.items() for c in calls) \
                    or sorted(map(id, flat)) != sorted(map(id, cfg.calls)):
                vs.append(V(f"{PROP}|{shape_sig}|symptom=contexts-grouping", "Config.contexts does not partition the calls by their context", len(cfg.calls), len(flat)))
        for c, o in zip(cfg.calls, got):
            cc = alpha.call(c.config)
            if isinstance(cc, alpha.Raised) or json.loads(json.dumps(cc, default=str)) != {o["module"]: {o["method"]: o["kwargs"]}}:
                vs.append(V(f"{PROP}|{shape_sig}|symptom=call-config", "Call.config() does not return {module: {test: kwargs}}", {o["module"]: {o["method"]: o["kwargs"]}}, repr(cc)))
                break
    return vs, nt, tuple(cg), 0


def replay(case):
    return check_case(case)[0]


def subsets(kmax, nmenu=None):
    idx = range(nmenu or len(MENU))
    out = []
    for k in range(1, kmax + 1):
        out.extend(list(c) for c in itertools.combinations(idx, k))
    return out


def asts(tier):
    kmax = 2 if tier == "quick" else 3
    subs = subsets(kmax)
    singles = subsets(2, 8)   # the two-stream / windowed / multi-context products use the first 8 menu entries
    # one context, no window / region: one and two streams
    for a in subs:
        for null in ("null", "empty"):
            if null == "empty" and 4 not in a:
                continue
            yield dict(contexts=[dict(window=0, region=0, streams={"v1": a})], null=null)
    for a in singles:
        for b in singles:
            yield dict(contexts=[dict(window=0, region=0, streams={"v1": a, "v2": b})], null="null")
    for a, b in (([8], [9]), ([9], [8]), ([8, 9], [0]), ([0], [8, 9]), ([8], [1, 9])):
        yield dict(contexts=[dict(window=0, region=0, streams={"v1": a, "v2": b})], null="null")
    # one stream configured with tests of 4 and 5 different top-level modules (known and unknown ones)
    for a in ([0, 4, 5, 7], [1, 4, 5, 7, 10], [0, 4, 7, 10], [5, 7, 10], [0, 1, 2, 3, 4, 5, 6, 7, 9, 10], [11, 12, 0], [12, 11], [6, 0, 1], [6, 11]):
        yield dict(contexts=[dict(window=0, region=0, streams={"v1": a})], null="null")
        yield dict(contexts=[dict(window=1, region=1, streams={"v1": a, "v2": [0]})], null="null")
    # one context with window / region
    for w in range(3):
        for r in range(3):
            if w == 0 and r == 0:
                continue
            for a in singles:
                yield dict(contexts=[dict(window=w, region=r, streams={"v1": a})], null="null")
    for w in (3, 4):
        for r in (0, 1):
            for a in singles[:12]:
                yield dict(contexts=[dict(window=w, region=r, streams={"v1": a})], null="null")
    # three contexts, the first and the last with the same window (calls of one context are not adjacent)
    for a in singles[:10]:
        for w1, w2 in ((1, 2), (0, 1), (3, 0), (4, 1)):
            yield dict(contexts=[dict(window=w1, region=0, streams={"v1": a}), dict(window=w2, region=0, streams={"v1": [0]}),
                                 dict(window=w1, region=0, streams={"v2": [1]})], null="null")
    # large configurations: 4-6 contexts x 3-8 streams x up to 6 entries per stream
    for nctx, nstreams, per in ((4, 3, 4), (6, 8, 6), (5, 2, 10)):
        ctxs = []
        for c in range(nctx):
            streams = {}
            for s_ in range(nstreams):
                start = (c * 3 + s_ * 2) % len(MENU)
                streams[f"v{s_ + 1}"] = sorted({(start + k * (1 + (c + s_) % 3)) % len(MENU) for k in range(min(per, len(MENU)))})
            ctxs.append(dict(window=(c % 5), region=(c % 3), streams=streams))
        yield dict(contexts=ctxs, null="null")
    # two contexts
    reps = [[0], [4], [1, 6], [2, 7], [3, 5], [4, 6]]
    for a in singles:
        for wb, rb in ((2, 1), (0, 2), (1, 0)):
            for b in reps:
                yield dict(contexts=[dict(window=1, region=0, streams={"v1": a}), dict(window=wb, region=rb, streams={"v1": b, "v2": a})], null="null")


def tasks(tier):
    n = sum(1 for _ in asts(tier))
    chunks = 64
    return [("asts", tier, c, chunks) for c in range(chunks)] + [("reuse", fmt, k) for fmt in ("yaml", "json") for k in ("str", "Path")] \
        + [("many", carrier, regions) for carrier in ("dict", "yaml", "json") for regions in (True, False)]


def _cleanup_tmp():
    global _TMP
    if _TMP and os.path.isdir(_TMP):
        shutil.rmtree(_TMP, True)
    _TMP = None


def run_task(task, acc):
    if task[0] == "many":
        run_cases(acc, [dict(loads=n, carrier=task[1], regions=task[2]) for n in (40, 300)], check_case)
        return
    if task[0] == "reuse":
        _, fmt, kind = task
        small = [dict(contexts=[dict(window=w, region=0, streams={"v1": a})], null="null") for w in (0, 1) for a in ([0], [1], [4], [0, 1], [2, 5])]

        def gen2():
            for a in small:
                for b in small:
                    if a != b:
                        yield dict(asts=[a, b], fmt=fmt, kind_=kind)
                        yield dict(asts=[a, b, a], fmt=fmt, kind_=kind)
        try:
            run_cases(acc, gen2(), check_case)
        finally:
            _cleanup_tmp()
        return
    _, tier, c, chunks = task

    def gen():
        for k, ast in enumerate(asts(tier)):
            if k % chunks != c:
                continue
            for layout in layouts_for(ast):
                for carrier in carriers_for(layout, tier):
                    yield dict(ast=ast, layout=layout, carrier=carrier)
    try:
        run_cases(acc, gen(), check_case)
    finally:
        _cleanup_tmp()
