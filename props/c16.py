"""C16 - stricter thresholds never produce a better flag (all comparable pairs of a parameter lattice)."""
from __future__ import annotations

import itertools

import numpy as np

from mc import alpha
from refmodel import qc as R

from . import registry as G
from .common import V, cid

PROP = "C16"
NAN = alpha.NAN
NEG = float("-inf")
BUDGET = {"quick": 900, "thorough": 3400}
SEV = {1: 0, 3: 1, 4: 2}

META = dict(
    rule="per threshold-driven test: every series of the bounded space x every point of a parameter lattice is executed "
         "once on the real function; then EVERY ordered comparable pair (loose <= strict: spans / bounding box nested, "
         "spike / rate / speed / hop thresholds not larger, flat-line durations not longer and tolerance not smaller, "
         "attenuation and density thresholds not smaller; an absent optional threshold is the loosest value) is "
         "compared pointwise: severity GOOD<SUSPECT<FAIL must not decrease and the UNKNOWN / MISSING position sets must "
         "be identical. states = (series, lattice point) executions, transitions = comparable pairs compared. "
         "Scale: 3000-point records per test (1300-fix tracks), flat-line and attenuation lattices with durations of 1..100 sampling steps on regular, gappy and bursty axes. non-trivial = the pair's flag vectors differ",
    bounds={"quick": "series lengths: spike<=4, flat<=5, others<=3; lattices of 9-45 points per test",
            "thorough": "series lengths one more than quick"},
    not_judged=["pairs whose parameter sets are not comparable", "configurations the function rejects (suspect span outside fail span)"],
    assumptions=["metamorphic oracle: needs no reference model"],
)


def nest_intervals(bounds):
    return [(a, b) for a in bounds for b in bounds if a <= b]


def span_coords(iv):
    return (NEG, NEG) if iv is None else (iv[0], -iv[1])


def lattice(name):
    """-> list of (kwargs(JSON-safe), coords) ; q is at least as strict as p iff coords_q >= coords_p componentwise."""
    L = []
    if name == "flat_line_test:long":   # durations of 1 .. 100 sampling steps (long records only)
        for s in (6000, 3900, 3600, 600, 60):
            for f in (6000, 3900, 600):
                for tol in (0.5, 2):
                    L.append((dict(suspect_threshold=s, fail_threshold=f, tolerance=tol), (-s, -f, tol)))
    elif name == "attenuated_signal_test:long":
        for mode in (dict(), dict(test_period=600, min_obs=3), dict(test_period=7200, check_type="range")):
            for s in (0.25, 1.25, 10):
                for f in (0.25, 1.25, 10):
                    L.append((dict(suspect_threshold=s, fail_threshold=f, **mode), (s, f), tuple(sorted(mode.items()))))
    elif name == "gross_range_test":
        for f in nest_intervals((0, 1, 2, 3)):
            for s in [None] + [iv for iv in nest_intervals((0, 1, 2, 3)) if f[0] <= iv[0] and iv[1] <= f[1]]:
                kw = dict(fail_span=list(f))
                if s is not None:
                    kw["suspect_span"] = list(s)
                L.append((kw, span_coords(f) + span_coords(s)))
    elif name == "valid_range_test":
        for lo in (None, 0, 1, 2):
            for hi in (None, 3, 2, 1):
                for incl in ((True, False), (True, True), (False, False)):
                    L.append((dict(valid_span=[lo, hi], start_inclusive=incl[0], end_inclusive=incl[1]),
                              (NEG if lo is None else lo, NEG if hi is None else -hi), incl))
    elif name == "climatology_test":
        for v in nest_intervals((10, 14, 16, 20)):
            for f in [None] + [iv for iv in nest_intervals((5, 10, 14, 16, 20, 25)) if iv[0] <= v[0] and v[1] <= iv[1]]:
                m = dict(tspan=[1, 6], period="month", vspan=list(v))
                if f is not None:
                    m["fspan"] = list(f)
                L.append((dict(config=[m]), span_coords(v) + span_coords(f), "one"))
        # two overlapping members: the first fixed (with a fail span), the valid span of the second one nested
        first = dict(tspan=[1, 12], period="month", vspan=[0, 100], fspan=[10, 90])
        for v in nest_intervals((0, 14, 16, 20, 80, 100)):
            L.append((dict(config=[first, dict(tspan=[1, 6], period="month", vspan=list(v))]), span_coords(v), "two"))
        # ... and the second member going from no fail span to ever narrower fail spans (wider and narrower than the first one's)
        for f in (None, (0, 100), (5, 95), (10, 90), (12, 20), (14, 16)):
            m2 = dict(tspan=[1, 6], period="month", vspan=[14, 16])
            if f is not None:
                m2["fspan"] = list(f)
            L.append((dict(config=[first, m2]), span_coords(f), "two_f"))
            L.append((dict(config=[dict(first, tspan=[7, 12]), m2]), span_coords(f), "two_f_disjoint"))
    elif name == "spike_test":
        for method in ("average", "differential"):
            for s in (None, 3, 2, 1, 0.5, 0):
                for f in (None, 3, 2, 1, 0.5, 0):
                    kw = dict(method=method)
                    if s is not None:
                        kw["suspect_threshold"] = s
                    if f is not None:
                        kw["fail_threshold"] = f
                    L.append((kw, (NEG if s is None else -s, NEG if f is None else -f), method))
    elif name == "rate_of_change_test":
        for t in (3, 1.5, 1, 0.5, 0.25, 1 / 60):
            L.append((dict(threshold=t), (-t,)))
    elif name == "speed_test":
        for s in (1e9, 70_000, 1000, 10):
            for f in (1e9, 70_000, 1000, 10):
                L.append((dict(suspect_threshold=s, fail_threshold=f), (-s, -f)))
    elif name == "location_test":
        boxes = [None, (-20, -20, 20, 20), (-10, -5, 10, 5), (0, -5, 10, 5), (0, 0, 0, 0),
                 (-20, -20, 190, 60), (-200, -95, 185, 95)]   # (boxes reaching beyond the globe's own limits)
        for b in boxes:
            for r in (None, 1e7, 200_000, 100, 0):
                kw = {}
                if b is not None:
                    kw["bbox"] = list(b)
                if r is not None:
                    kw["range_max"] = r
                bb = b or (-360, -180, 360, 180)   # no box: looser than any box given
                L.append((kw, (bb[0], bb[1], -bb[2], -bb[3], NEG if r is None else -r)))
    elif name == "flat_line_test":
        for s in (300, 180, 120, 90, 60, 30):
            for f in (300, 120, 60):
                for tol in (0, 0.5, 1, 2, 3.5):
                    L.append((dict(suspect_threshold=s, fail_threshold=f, tolerance=tol), (-s, -f, tol)))
    elif name == "attenuated_signal_test":
        for mode in (dict(), dict(check_type="range"), dict(test_period=120, min_obs=2), dict(test_period=120, check_type="range")):
            for s in (0.25, 0.75, 1.25, 2.5, 10):
                for f in (0.25, 0.75, 1.25, 2.5, 10):
                    L.append((dict(suspect_threshold=s, fail_threshold=f, **mode), (s, f), tuple(sorted(mode.items()))))
    elif name == "density_inversion_test":
        for s in (None, -2, -1, -0.5, 0, 0.5):
            for f in (None, -2, -1, -0.5, 0, 0.5):
                kw = {}
                if s is not None:
                    kw["suspect_threshold"] = s
                if f is not None:
                    kw["fail_threshold"] = f
                L.append((kw, (NEG if s is None else s, NEG if f is None else f)))
    out = []
    for item in L:
        kw, coords = item[0], item[1]
        group = item[2] if len(item) > 2 else None
        out.append((kw, coords, group))
    return out


def geq(q, p):
    return all(a >= b for a, b in zip(q, p))


# ---- series spaces ------------------------------------------------------------------------
def spaces(name, tier):
    """yield logical cases dict(x=..., z=..., secs=..., lon=..., lat=...)"""
    d = 0 if tier == "quick" else 1
    if name in ("gross_range_test", "valid_range_test"):
        vals = (-1.0, 0.0, 0.5, 1.0, 1.5, 2.0, 2.5, 3.0, 4.0, NAN)
        yield dict(x=list(vals))
        yield dict(x=list(reversed(vals)))
        for x in alpha.all_seqs(vals, 0, 2 + d):
            yield dict(x=list(x))
    elif name == "climatology_test":
        xs = (4.0, 5.0, 7.0, 10.0, 12.0, 14.0, 15.0, 16.0, 18.0, 20.0, 22.0, 25.0, 26.0, 85.0, 95.0, NAN)
        pts = [(t, x) for t in (0, 200) for x in xs]
        secs = lambda p: alpha.T0 + 86400 * p[0]
        yield dict(x=[p[1] for p in pts], secs=[secs(p) for p in pts], z=[5.0] * len(pts))
        for seq in alpha.all_seqs(pts[::3], 0, 2 + d):
            yield dict(x=[p[1] for p in seq], secs=[secs(p) for p in seq], z=[5.0] * len(seq))
    elif name == "spike_test":
        for x in alpha.all_seqs((0.0, 1.0, 3.0, 4.0, NAN), 0, 4 + d):
            yield dict(x=list(x))
        yield dict(x=alpha.debruijn((0.0, 1.0, 3.0, 4.0, NAN), 3) * 3)
    elif name == "rate_of_change_test":
        for x in alpha.all_seqs((0.0, 1.0, 3.0, NAN), 0, 3 + d):
            for gaps in ((1, 2, 60, 1), (60, 1, 1, 2)):
                yield dict(x=list(x), secs=alpha.times_from_gaps(gaps[: max(len(x) - 1, 0)]) if x else [])
    elif name in ("speed_test", "location_test"):
        pos = ((0.0, 0.0), (1.0, 0.0), (0.0, 6.0), (11.0, 0.0), (NAN, 0.0), (NAN, NAN), (-5.0, -3.0))
        for tr in alpha.all_seqs(pos, 0, 3 + d):
            yield dict(lon=[p[0] for p in tr], lat=[p[1] for p in tr], secs=alpha.regular_secs(len(tr), 3600))
            if name == "speed_test" and len(tr) >= 2:  # a repeated timestamp
                yield dict(lon=[p[0] for p in tr], lat=[p[1] for p in tr], secs=[alpha.T0 + 3600 * (j - (1 if j >= 1 else 0)) for j in range(len(tr))])
    elif name == "flat_line_test":
        for x in alpha.all_seqs((0.0, 1.0, 3.0, NAN), 0, 5 + d):
            yield dict(x=list(x), secs=alpha.regular_secs(len(x), 60))
        lx = alpha.debruijn((0.0, 1.0, 3.0, NAN), 4) * 2
        yield dict(x=lx, secs=alpha.regular_secs(len(lx), 60))
    elif name == "attenuated_signal_test":
        lx = alpha.debruijn((0.0, 1.0, 3.0, NAN), 3) * 3
        yield dict(x=lx, secs=alpha.regular_secs(len(lx), 60))
        for x in alpha.all_seqs((0.0, 1.0, 3.0, NAN), 0, 4 + d):
            for gaps in ((60, 60, 60, 60), (60, 120, 300, 60)):
                yield dict(x=list(x), secs=alpha.times_from_gaps(gaps[: max(len(x) - 1, 0)]) if x else [])
    elif name == "density_inversion_test":
        for x in alpha.all_seqs((0.0, 1.0, 2.0, NAN), 1, 4 + d):
            n = len(x)
            for steps in itertools.product((1.0, 0.0, -1.0), repeat=min(n - 1, 2)):
                z = [10.0]
                for i in range(n - 1):
                    z.append(z[-1] + steps[i % len(steps)] if steps else z[-1] + 1)
                yield dict(x=list(x), z=z)
                if n >= 2:
                    zz = list(z)
                    zz[1] = NAN
                    yield dict(x=list(x), z=zz)


def plateaus(n, ks):
    from .c11 import plateaus as p11

    return p11(n, ks)


def long_spaces(name):
    """a few very long records per test (size-keyed code paths: chunking, fast paths)"""
    N = 3000
    if name in ("gross_range_test", "valid_range_test"):
        vals = (-1.0, 0.0, 0.5, 1.0, 1.5, 2.0, 2.5, 3.0, 4.0, NAN)
        x = alpha.xl(vals, N, 2)
        yield dict(x=list(x))
        yield dict(x=sorted(v for v in x if v != NAN))
    elif name == "climatology_test":
        xs = (4.0, 10.0, 12.0, 14.0, 15.0, 16.0, 18.0, 20.0, 22.0, 26.0, 85.0, 95.0, NAN)
        x = alpha.xl(xs, N, 2)
        yield dict(x=list(x), secs=[alpha.T0 + 3 * 3600 * i for i in range(N)], z=[5.0] * N)
    elif name == "spike_test":
        yield dict(x=list(alpha.xl((0.0, 1.0, 3.0, 4.0, NAN), N, 3)))
    elif name == "rate_of_change_test":
        x = alpha.xl((0.0, 1.0, 3.0, NAN), N, 3)
        yield dict(x=list(x), secs=alpha.times_from_gaps([(1, 2, 60, 1, 2)[i % 5] for i in range(N - 1)]))
    elif name in ("speed_test", "location_test"):
        pos = ((0.0, 0.0), (1.0, 0.0), (0.0, 6.0), (11.0, 0.0), (NAN, 0.0), (NAN, NAN))
        tr = alpha.xl(pos, 1300, 2)
        yield dict(lon=[p[0] for p in tr], lat=[p[1] for p in tr], secs=alpha.regular_secs(len(tr), 3600))
    elif name == "flat_line_test":
        x = alpha.xl((0.0, 1.0, 3.0, NAN), N, 4)
        yield dict(x=list(x), secs=alpha.regular_secs(N, 60))
        px = plateaus(N, [1, 2, 5, 10, 60, 65, 100])
        gappy = alpha.times_from_gaps([7000 if (i % 211) == 210 else 60 for i in range(N - 1)])
        for secs in (alpha.regular_secs(N, 60), gappy):
            yield dict(x=list(px), secs=secs)
            yield dict(x=list(px), secs=secs, lattice="long")
        wob = [v if v == NAN else v + 0.3 * ((i * 7) % 5) for i, v in enumerate(x)]   # lively data
        yield dict(x=wob, secs=gappy, lattice="long")
    elif name == "attenuated_signal_test":
        x = alpha.xl((0.0, 1.0, 3.0, NAN), N, 3)
        yield dict(x=list(x), secs=alpha.regular_secs(N, 60), lattice="long")
        yield dict(x=list(x), secs=alpha.times_from_gaps([1 if (i % 97) < 25 else 60 for i in range(N - 1)]), lattice="long")
    elif name == "density_inversion_test":
        x = alpha.xl((0.0, 1.0, 2.0, NAN), N, 3)
        yield dict(x=list(x), z=[10.0 + i for i in range(N)])
        yield dict(x=list(x), z=[10.0 + (i if i < N // 2 else N - i) for i in range(N)])


TESTS = ["gross_range_test", "valid_range_test", "climatology_test", "spike_test", "rate_of_change_test", "speed_test",
         "location_test", "flat_line_test", "attenuated_signal_test", "density_inversion_test"]
_LAT = {}


def lat(name):
    if name not in _LAT:
        _LAT[name] = lattice(name)
    return _LAT[name]


def run_point(name, kwj, logical):
    name = name.split(":")[0]
    spec = G.SPECS[name]
    if spec["kind"] == "position":
        n = len(logical["lon"])
        fn, kw, _ = G.build(name, kwj, list(range(n)), "nd", secs=logical.get("secs"), lon=logical["lon"], lat=logical["lat"])
    else:
        fn, kw, _ = G.build(name, kwj, logical["x"], "nd", z=logical.get("z"), secs=logical.get("secs"))
        if logical.get("carrier") == "ma":
            # the series as a masked array: every masked slot hides the same finite value (inside loose, outside strict spans)
            miss = [v in (NAN, None) for v in logical["x"]]
            kw["inp"] = np.ma.MaskedArray(np.array([logical["payload"] if m else float(v) for v, m in zip(logical["x"], miss)]), mask=miss)
    out = alpha.call(fn, **kw)
    if isinstance(out, alpha.Raised):
        return out
    vals, _, _ = alpha.flags_of(out)
    return vals


def compare(loose, strict):
    """-> None or (index, why)"""
    if len(loose) != len(strict):
        return (0, "length")
    for i, (a, b) in enumerate(zip(loose, strict)):
        if a in SEV:
            if b not in SEV:
                return (i, f"evaluated({a})->unevaluated({b})")
            if SEV[b] < SEV[a]:
                return (i, f"severity {a}->{b}")
        elif a != b:
            return (i, f"unevaluated({a})->{b}")
    return None


def check_logical(name, logical, acc=None):
    """Execute the whole lattice on one series and compare every comparable pair."""
    L = lat(name + (":" + logical["lattice"] if logical.get("lattice") else ""))
    res = []
    vs = []
    for kwj, coords, group in L:
        res.append(run_point(name, kwj, logical))
    npairs = 0
    ndiff = 0
    for i, (kp, cp, gp) in enumerate(L):
        rp = res[i]
        if isinstance(rp, alpha.Raised):
            vs.append((V(f"{PROP}|{name}|symptom={rp!r}", f"{name} raised {rp.name}: {rp.msg}", None, repr(rp)), kp, kp))
            continue
        for j, (kq, cq, gq) in enumerate(L):
            if i == j or gp != gq or not geq(cq, cp):
                continue
            rq = res[j]
            if isinstance(rq, alpha.Raised):
                continue
            npairs += 1
            if rp != rq:
                ndiff += 1
                bad = compare(rp, rq)
                if bad:
                    vs.append((V(f"{PROP}|{name}|{bad[1]}", f"{name}: point {bad[0]} {bad[1]} when parameters get stricter {kp} -> {kq}", rp, rq), kp, kq))
    return vs, len(L), npairs, ndiff, res


def check_case(case):
    """replay entry: one series, one (loose, strict) pair."""
    name = case["fn"]
    logical = case["logical"]
    rp = run_point(name, case["loose"], logical)
    rq = run_point(name, case["strict"], logical)
    vs = []
    if isinstance(rp, alpha.Raised) or isinstance(rq, alpha.Raised):
        r = rp if isinstance(rp, alpha.Raised) else rq
        vs.append(V(f"{PROP}|{name}|symptom={r!r}", f"{name} raised {r.name}: {r.msg}", None, repr(r)))
    else:
        bad = compare(rp, rq)
        if bad:
            vs.append(V(f"{PROP}|{name}|{bad[1]}", f"{name}: point {bad[0]} {bad[1]} when parameters get stricter", rp, rq))
    return vs, True, None, 0


def replay(case):
    return check_case(case)[0]


def tasks(tier):
    ts = []
    for name in TESTS:
        nchunks = 16 if name in ("spike_test", "flat_line_test", "attenuated_signal_test", "density_inversion_test", "location_test") else 4
        for c in range(nchunks):
            ts.append((name, c, nchunks, tier))
    return ts


def run_task(task, acc):
    name, c, nchunks, tier = task

    def with_masked():
        for lg in itertools.chain(long_spaces(name), spaces(name, tier)):
            yield lg
            x = lg.get("x")
            if x and len(x) <= 6 and any(v == NAN for v in x) and name in ("gross_range_test", "valid_range_test", "spike_test", "rate_of_change_test", "flat_line_test", "climatology_test"):
                for payload in ((1.5, 3.5) if name != "climatology_test" else (17.0, 23.0)):
                    yield dict(lg, carrier="ma", payload=payload)
    for k, logical in enumerate(with_masked()):
        if k % nchunks != c:
            continue
        vs, npoints, npairs, ndiff, res = check_logical(name, logical)
        acc.states += npoints
        acc.evaluations += npoints
        acc.transitions += npairs
        acc.nontrivial += ndiff
        idc = cid(dict(fn=name, logical=logical))
        # digest / samples bookkeeping once per series
        acc.visit(idc, False, None, edges=0, evals=0, sample=dict(fn=name, logical=logical, lattice_points=npoints, comparable_pairs=npairs))
        acc.states -= 1  # visit() counted the series itself as a state; states are (series, lattice point) executions
        for r in res:
            if isinstance(r, list) and not acc.obs_capped:
                acc.obs.add(hash(tuple(r)))
        for v, kp, kq in vs:
            case = dict(fn=name, logical=logical, loose=kp, strict=kq)
            acc.violation(v["signature"], v["what"], case, v.get("expected"), v.get("observed"))
