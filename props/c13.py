"""C13 - density_inversion_test (pairs, either cast direction) and pressure_increasing_test."""
from __future__ import annotations

import itertools

from mc import alpha
from refmodel import qc as R

from .common import V, judge_flags, run_cases

PROP = "C13"
RHO = (0.0, 1.0, 2.0, alpha.NAN)
STEPS = (1.0, 0.0, -1.0)
THR = (None, -2.0, -1.0, -0.5, 0.0, 0.5)
THR_SMALL = (None, -1.0, 0.0, 0.5)
THR_MISS = (None, -1.0, 0.0)
NMAX = {"quick": 4, "thorough": 5}
PMAX = {"quick": 6, "thorough": 8}
BUDGET = {"quick": 600, "thorough": 3000}

META = dict(
    rule="density_inversion_test: every density series of length 1..N over {0,1,2,NaN} x every depth profile built "
         "from steps {+1,0,-1} (down, up, down-up, stationary, repeated depths) x all 36 (quick: 16 at the longest length) (suspect,fail) pairs over "
         "{None,-2,-1,-.5,0,.5} (differences land exactly on -1,-2), and x every placement of one or two missing depths "
         "with 16 threshold pairs; pressure_increasing_test: every series of length 0..P over {0,1,2,3} as ndarray and "
         "list. Each state = one real call judged per point by the scalar reference (pair rule; both members of the "
         "pair; the reference is mirror-symmetric, so agreement on a profile and on its reverse - both are in the "
         "space - is the upcast/downcast relation). Scale: 12345-level density profiles (monotonic and up-down depth) and pressure ramps; the judged call after profiles with stalls / inversions evaluated earlier in the same process (30, 600, 1500 levels). non-trivial = reference demands SUSPECT/FAIL/MISSING/UNKNOWN",
    bounds={"quick": {"density_len": 4, "pressure_len": 6}, "thorough": {"density_len": 5, "pressure_len": 8}},
    not_judged=["pressure profiles whose mean step is exactly 0", "NaN in pressure", "the empty density series (C01)"],
    assumptions=["density differences over the dyadic alphabet are exact"],
)


def depth_profiles(n):
    for steps in itertools.product(STEPS, repeat=n - 1):
        z = [10.0]
        for s in steps:
            z.append(z[-1] + s)
        yield z


def tasks(tier):
    n = NMAX[tier]
    ts = []
    for k in range(1, n + 1):
        for pre in itertools.product(RHO, repeat=min(2, k)):
            ts.append(("dens", k, list(pre), tier))
    for k in range(0, PMAX[tier] + 1):
        ts.append(("press", k))
    ts.append(("long",))
    return ts


def check_case(case):
    from ioos_qc import argo, qartod

    if case["fn"] == "density":
        rho, z = case["rho"], case["z"]
        kw = {}
        if case["suspect"] is not None:
            kw["suspect_threshold"] = case["suspect"]
        if case["fail"] is not None:
            kw["fail_threshold"] = case["fail"]
        for pr, pz in case.get("pre", ()):
            alpha.call(qartod.density_inversion_test, alpha.nd(pr), alpha.nd(pz), **kw)
        rin, zin = alpha.nd(rho), alpha.nd(z)
        if case.get("carrier") == "ma":
            # density and depth as masked arrays; a masked slot hides a finite value that would make / break an inversion
            import numpy as np

            mr = [v == alpha.NAN for v in rho]
            mz = [v == alpha.NAN for v in z]
            rin = np.ma.MaskedArray(np.array([-50.0 if m else float(v) for v, m in zip(rho, mr)]), mask=mr)
            zin = np.ma.MaskedArray(np.array([(15.0 + i) if m else float(v) for i, (v, m) in enumerate(zip(z, mz))]), mask=mz)
        out = alpha.call(qartod.density_inversion_test, rin, zin, **kw)
        acceptable = R.density_inversion(alpha.ref(rho), alpha.ref(z), case["suspect"], case["fail"])
        zmiss = any(v == alpha.NAN for v in z)
        vs, obs = judge_flags(PROP, "density_inversion_test", out, acceptable, len(rho),
                              extra_sig=f"missing_depth={zmiss}", classify=lambda i: "point" if len(rho) > 1 else "only")
        return vs, alpha.is_nontrivial(acceptable), obs, 0
    p = case["p"]
    for pp in case.get("pre", ()):
        # earlier calls in the same process on other profiles: nothing of them may leak into the judged call
        alpha.call(argo.pressure_increasing_test, alpha.nd(pp))
    inp = alpha.nd(p) if case.get("carrier", "nd") == "nd" else list(p)
    out = alpha.call(argo.pressure_increasing_test, inp)
    acceptable = R.pressure_increasing([float(v) for v in p])
    if acceptable is None:
        vals, _, _ = alpha.flags_of(out)
        return [], False, tuple(vals) if vals else None, len(p)
    vs, obs = judge_flags(PROP, "pressure_increasing_test", out, acceptable, len(p), classify=lambda i: "first" if i == 0 else "later")
    return vs, alpha.is_nontrivial(acceptable), obs, 0


def replay(case):
    return check_case(case)[0]


FULL4 = False


def run_task(task, acc):
    global FULL4
    if task[0] == "long":
        def gen():
            for rho in (alpha.debruijn(RHO, 4), alpha.xl(RHO)):
              n = len(rho)
              down = [10.0 + i for i in range(n)]
              updown = [10.0 + (i if i < n // 2 else n - i) for i in range(n)]
              for z in ((down, updown) if n > 1000 else ()):
                for s, f in ((None, -1.0), (-0.5, -1.0), (0.0, None)):
                    yield dict(fn="density", rho=list(rho), z=z, suspect=s, fail=f)
            yield dict(fn="pressure", p=[float(v) + 0.5 * i for i, v in enumerate(alpha.xl((0.0, 1.0, 2.0, 3.0)))])
            yield dict(fn="pressure", p=[float(v) - 0.5 * i for i, v in enumerate(alpha.xl((0.0, 1.0, 2.0, 3.0)))])
            # a profile with stalls / reversals (and a density profile with inversions) first, then a clean longer one
            for ln in (30, 600, 1500):
                dirty = [float(i) for i in range(ln)]
                for j in (ln // 3, ln // 2, ln - 2):
                    dirty[j] = dirty[j - 1] - (j % 2)
                clean = [float(i) * 0.5 for i in range(ln + 37)]
                yield dict(fn="pressure", p=clean, pre=[dirty])
                yield dict(fn="pressure", p=clean[: ln - 5], pre=[dirty, clean])
                rd = [float(v) for v in alpha.xl(RHO, ln, 3)]
                zd = [10.0 + i for i in range(ln)]
                rc = [1.0 + 0.001 * i for i in range(ln + 37)]
                zc = [10.0 + i for i in range(ln + 37)]
                yield dict(fn="density", rho=rc, z=zc, suspect=-0.5, fail=-1.0, pre=[[rd, zd]])
                yield dict(fn="density", rho=rc[: ln - 5], z=zc[: ln - 5], suspect=0.0, fail=None, pre=[[rd, zd], [rc, zc]])
            rho = alpha.debruijn(RHO, 4)
            n = len(rho)
            down = [10.0 + i for i in range(n)]
            updown = [10.0 + (i if i < n // 2 else n - i) for i in range(n)]
            steps = [10.0 + (i // 3) for i in range(n)]
            for z in (down, list(reversed(down)), updown, steps):
                for s in THR:
                    for f in THR:
                        yield dict(fn="density", rho=list(rho), z=z, suspect=s, fail=f)
            p = alpha.debruijn((0.0, 1.0, 2.0, 3.0), 4)
            ramp = [v + 2.0 * i for i, v in enumerate(p)]
            for series in (p, ramp, list(reversed(ramp))):
                yield dict(fn="pressure", p=list(series))
            big = float(2 ** 25)
            for q in itertools.product((0.0, 1.0, 2.0, 3.0), repeat=4):
                yield dict(fn="pressure", p=[big + v for v in q])
                yield dict(fn="pressure", p=[big + v for v in q], carrier="list")
        run_cases(acc, gen(), check_case)
        return
    if task[0] == "dens":
        _, n, first = task[:3]
        FULL4 = len(task) > 3 and task[3] == "thorough"

        def gen():
            for rest in itertools.product(RHO, repeat=n - len(first)):
                rho = [*first, *rest]
                for z in depth_profiles(n):
                    thr = THR if (n <= 3 or FULL4) else THR_SMALL
                    for s in thr:
                        for f in thr:
                            yield dict(fn="density", rho=rho, z=z, suspect=s, fail=f)
                    for k in (1, 2):
                        for miss in itertools.combinations(range(n), k):
                            zz = [alpha.NAN if i in miss else v for i, v in enumerate(z)]
                            for s in (THR_SMALL if (n <= 3 or FULL4) else THR_MISS):
                                for f in (THR_SMALL if (n <= 3 or FULL4) else THR_MISS):
                                    yield dict(fn="density", rho=rho, z=zz, suspect=s, fail=f)
                            if n <= 3:
                                yield dict(fn="density", rho=rho, z=zz, suspect=-0.5, fail=-1.0, carrier="ma")
                                yield dict(fn="density", rho=rho, z=zz, suspect=0.0, fail=None, carrier="ma")
        run_cases(acc, gen(), check_case)
    else:
        _, n = task

        def gen():
            for p in itertools.product((0.0, 1.0, 2.0, 3.0), repeat=n):
                yield dict(fn="pressure", p=list(p))
                if n <= 4:
                    yield dict(fn="pressure", p=list(p), carrier="list")
        run_cases(acc, gen(), check_case)
