"""C09 - spike_test: interior points vs. their two neighbours (both methods, all threshold combos)."""
from __future__ import annotations

import itertools

from mc import alpha
from refmodel import qc as R

from .common import judge_flags, run_cases

PROP = "C09"
SIGMA = (0.0, 1.0, 3.0, 4.0, alpha.NAN)
THR = (None, 0.0, 0.5, 1.0, 1.5, 2.0, 3.0)
METHODS = ("average", "differential")
NMAX = {"quick": 5, "thorough": 7}
BUDGET = {"quick": 600, "thorough": 3000}

META = dict(
    rule="prefix tree: every series of length 1..N over {0,1,3,4,NaN} x method in {average,differential} x "
         "(suspect,fail) in ({None,0,.5,1,1.5,2,3})^2, each executed on the real spike_test (ndarray carrier; python "
         "lists with None/NaN for N<=3) and judged per point by the scalar reference; plus two long series (de Bruijn sequences holding every length-4 window, 628 and 2519 points); plus float32 / float16 carriers at magnitudes (2^24, 2^11) where arithmetic in the narrow type is inexact; plus every unknown-method "
         "spelling x thresholds x series of length<=3 (must raise ValueError). Scale: a 12345-point series for every threshold pair and method; the judged call after one or two earlier calls on longer records with gaps around its length (40, 300, 1027, 2049 points, +-1..2). non-trivial = reference demands a "
         "SUSPECT or FAIL somewhere, or an exception",
    bounds={"quick": {"max_len": 5, "alphabet": list(SIGMA), "thresholds": list(THR)},
            "thorough": {"max_len": 7, "alphabet": list(SIGMA), "thresholds": list(THR)}},
    not_judged=["interior points with a missing neighbour or missing value (C02 judges them)"],
    assumptions=["spike magnitudes over the dyadic alphabet are exact in float64"],
)


def tasks(tier):
    n = NMAX[tier]
    ts = []
    for m in METHODS:
        for s in THR:
            for f in THR:
                ts.append(("series", m, s, f, n))
    for m in ("bogus", "Average", "", " average", "DIFFERENTIAL", "differential ", "avg"):
        ts.append(("badmethod", m, 3 if m in ("bogus", "Average", "") else 2))
    ts.append(("lists", 3))
    ts.append(("narrow",))
    ts.append(("justabove",))
    ts.append(("calls",))
    ts.append(("decimal",))
    ts.append(("extreme",))
    ts.append(("long", 0)); ts.append(("long", 1)); ts.append(("long", 2))
    ts.append(("seq",))
    return ts


def check_case(case):
    from ioos_qc import qartod

    x = case["x"]
    n = len(x)
    if case.get("carrier") in ("f4", "f2"):
        import numpy as np

        inp = np.array([alpha.to_float(v) for v in x], dtype="float32" if case["carrier"] == "f4" else "float16")
    elif case.get("carrier") in ("mai", "mai_nomask"):
        import numpy as np

        # integer-typed masked array (a packed variable): missing = masked with -999 underneath; with and without a mask array
        miss = [v in (alpha.NAN, None) for v in x]
        inp = np.ma.MaskedArray(np.array([-999 if m else int(v) for v, m in zip(x, miss)], dtype="int64"),
                                mask=miss if (case["carrier"] == "mai" or any(miss)) else False)
    elif case.get("carrier") == "list":
        inp = alpha.pylist(x)
    else:
        inp = alpha.nd(x)
    kw = {}
    if case["suspect"] is not None:
        kw["suspect_threshold"] = case["suspect"]
    if case["fail"] is not None:
        kw["fail_threshold"] = case["fail"]
    for px in case.get("pre", ()):
        # earlier calls in the same process (other, longer records): nothing of them may leak into the judged call
        alpha.call(qartod.spike_test, alpha.nd(px), method=case["method"], **kw)
    if case.get("positional"):
        # the published parameter order: spike_test(inp, suspect_threshold, fail_threshold, method)
        args = [inp, case["suspect"], case["fail"]] + ([case["method"]] if case["positional"] == 4 else [])
        out = alpha.call(qartod.spike_test, *args, **({} if case["positional"] == 4 else dict(method=case["method"])))
    else:
        out = alpha.call(qartod.spike_test, inp, method=case["method"], **kw)
    acceptable = R.spike(alpha.ref(x), case["suspect"], case["fail"], case["method"])
    vs, obs = judge_flags(PROP, "spike_test", out, acceptable, n, extra_sig=f"method={case['method']}")
    nt = isinstance(acceptable, str) or alpha.is_nontrivial(acceptable, boring=(1, 2))
    return vs, nt, obs, 0


def replay(case):
    return check_case(case)[0]


def run_task(task, acc):
    kind = task[0]
    if kind == "series":
        _, m, s, f, n = task
        cases = (dict(x=list(x), suspect=s, fail=f, method=m) for x in alpha.all_seqs(SIGMA, 1, n))
        run_cases(acc, cases, check_case)
    elif kind == "badmethod":
        _, m, n = task
        cases = (dict(x=list(x), suspect=s, fail=f, method=m)
                 for x in alpha.all_seqs(SIGMA, 1, n) for s, f in itertools.product(THR[:3], repeat=2))
        run_cases(acc, cases, check_case)
    elif kind == "long":
        # long series: a de Bruijn sequence containing every length-4 window over the alphabet (x1 and x4 repeats)
        base = alpha.debruijn(SIGMA, 4)
        x = base if task[1] == 0 else (base * 4 + base[:7] if task[1] == 1 else alpha.xl(SIGMA))
        cases = (dict(x=list(x), suspect=s, fail=f, method=m) for m in METHODS for s in THR for f in THR)
        run_cases(acc, cases, check_case)
    elif kind == "seq":
        def gen():
            clean = [v for v in alpha.xl(SIGMA, 4000, 3) if v != alpha.NAN]
            for ln in (40, 300, 1027, 2049):
                longer = list(clean[: ln + 200])
                for j in range(ln - 3, ln + 2):
                    longer[j] = alpha.NAN
                for d in (-1, 0, 1, 2):
                    x = clean[5: 5 + ln + d]
                    for m in METHODS:
                        for s_, f_ in ((1.0, 2.0), (0.5, None)):
                            yield dict(x=x, suspect=s_, fail=f_, method=m, pre=[longer])
                            yield dict(x=x, suspect=s_, fail=f_, method=m, pre=[longer[:ln + 50], longer])
        run_cases(acc, gen(), check_case)
    elif kind == "decimal":
        # decimal (non-dyadic) data with thresholds exactly on the differences the statement's formula yields in double
        # precision: an algebraically equal rewriting that rounds differently flips these equalities
        def gen():
            vals = (0.0, 0.1, 0.2, 0.3, 0.4, 0.7, 1.1)
            for x in alpha.all_seqs(vals, 3, 3):
                a, b, c = x
                ds = {abs(b - (a + c) / 2), min(abs(b - a), abs(c - b))}
                for m in METHODS:
                    for d in sorted(ds):
                        yield dict(x=list(x), suspect=d, fail=None, method=m)
                        yield dict(x=list(x), suspect=None, fail=d, method=m)
            for x in alpha.all_seqs(vals[:5], 4, 4):
                for m in METHODS:
                    for d in (0.1, 0.2, 0.30000000000000004, 0.15000000000000002):
                        yield dict(x=list(x), suspect=d, fail=2 * d, method=m)
        run_cases(acc, gen(), check_case)
    elif kind == "calls":
        def gen():
            for x in alpha.all_seqs((0.0, 1.0, 3.0, alpha.NAN), 3, 4):
                for m in METHODS:
                    for s_, f_ in ((1.0, 2.0), (0.5, None), (None, 1.5), (2.0, 1.0)):
                        for pos in (3, 4):
                            yield dict(x=list(x), suspect=s_, fail=f_, method=m, positional=pos)
                        for carrier in ("mai", "mai_nomask"):
                            yield dict(x=list(x), suspect=s_, fail=f_, method=m, carrier=carrier)
        run_cases(acc, gen(), check_case)
    elif kind == "justabove":
        # differences a hair above / below / exactly on a threshold (all exact binary fractions): no tolerance band
        def gen():
            for T in (1.0, 1024.0, 2.0 ** -10, 3.0, 0.0):
                hair = [T * (1 + 2.0 ** -20), T + 2.0 ** -30, T, T * (1 - 2.0 ** -20), T + T * 2.0 ** -17] if T else [2.0 ** -30, 2.0 ** -40, 0.0]
                for m in METHODS:
                    for s_, f_ in ((T, None), (None, T), (T, 2 * T if T else 1.0), (T / 2, T)):
                        for a in hair:
                            for b in hair:
                                yield dict(x=[0.0, a, 0.0, b, 0.0], suspect=s_, fail=f_, method=m)
                                yield dict(x=[5.0, 5.0 + a, 5.0, 5.0 - b, 5.0], suspect=s_, fail=f_, method=m)
        run_cases(acc, gen(), check_case)
    elif kind == "narrow":
        def gen():
            for carrier, base in (("f4", float(2 ** 24)), ("f2", float(2 ** 11))):
                sig = (base, base + 2, base + 4, alpha.NAN)
                for x in alpha.all_seqs(sig, 3, 5):
                    for m in METHODS:
                        for s, f in ((1.5, 3.0), (0.5, None), (None, 1.5)):
                            yield dict(x=list(x), suspect=s, fail=f, method=m, carrier=carrier)
        run_cases(acc, gen(), check_case)
    elif kind == "extreme":
        def gen():
            sig = (1e308, -1e308, 0.0, 6e307, -6e307, 2.0)
            for x in alpha.all_seqs(sig, 3, 4):
                # judged only where the formula of the statement stays finite in double precision
                # judged only where every intermediate of the statement's formula stays well inside the double range
                # (numpy.ma's safe division masks quotients of values within a factor ~2 of the largest double)
                LIM = 8e307
                for m in METHODS:
                    ok = True
                    for i in range(1, len(x) - 1):
                        a, b, c = x[i - 1], x[i], x[i + 1]
                        vals = (a + c, (a + c) / 2, b - (a + c) / 2) if m == "average" else (b - a, c - b)
                        if any(v != v or abs(v) > LIM for v in vals):
                            ok = False
                    if not ok:
                        continue
                    for s, f in ((1.0, 1e300), (1e307, None), (None, 1.0)):
                        yield dict(x=list(x), suspect=s, fail=f, method=m)
        run_cases(acc, gen(), check_case)
    elif kind == "lists":
        sig = (0.0, 3.0, alpha.NAN, None)
        cases = (dict(x=list(x), suspect=s, fail=f, method=m, carrier="list")
                 for x in alpha.all_seqs(sig, 1, task[1]) for m in METHODS
                 for s, f in ((None, None), (1.0, 2.0), (1.0, None), (None, 1.0), (2.0, 1.0)))
        run_cases(acc, cases, check_case)
