"""C19 - PandasStore.save: one aligned, uniquely named, CF-safe column per collected result."""
from __future__ import annotations

import itertools
import re

import numpy as np

from mc import alpha
from refmodel import qc as R

from . import streams_common as S
from .common import V, run_cases

PROP = "C19"
BUDGET = {"quick": 900, "thorough": 3400}
IDS = ("v1", "2x", "a b", "t.emp", "_u", "é")
CF = re.compile(r"^[A-Za-z_][A-Za-z0-9_]*$")
LETTER_FIRST = re.compile(r"^[A-Za-z][A-Za-z0-9_]*$")
TESTS = {
    "gross_range_test": dict(fail_span=[0, 8], suspect_span=[0, 4]),
    "spike_test": dict(suspect_threshold=1, fail_threshold=5),
    "valid_range_test": dict(valid_span=[1.5, 8.5]),
}
MODULE = {"gross_range_test": "qartod", "spike_test": "qartod", "valid_range_test": "axds"}
CTX_KINDS = ("none", "partial", "two", "partial_then_all", "empty", "empty_then_partial")
CHARS = ("a", "Z", "0", "9", "_", ".", " ", "-", "é")

META = dict(
    rule="runs: PandasStream over a 4-row table (5 thorough) for every set of 1-2 stream ids from {v1, 2x, 'a b', t.emp, "
         "_u, e-acute} x test sets over {qartod.gross_range, qartod.spike, axds.valid_range} x contexts {no window, one partial window, two "
         "disjoint windows, a partial window followed by an all-covering one}; for every run EVERY save variant: write_data x write_axes, include / exclude in {None} + "
         "every list of <=2 items over {the stream ids, the test names, the test functions} (one of them at a time, "
         "plus every single-item include x single-item exclude pair), with and without compute_aggregate. Oracle: one "
         "row per input row in order; the result columns are exactly those of the results that pass the filters, named "
         "<stream>_<module>_<test> made CF-safe (regex [A-Za-z_][A-Za-z0-9_]*; an already safe id is kept verbatim), "
         "values = collected flags with NaN where not evaluated; axis columns iff write_axes, data columns iff "
         "write_data; roll-up column = reference aggregate of all test results. + cf_safe_name on every string of "
         "length 1..3 (thorough 4) over 9 characters. Scale: 300- and 1500-row tables (sorted and shuffled, windows scaled), stores with 9-17 streams x 2-3 tests (18-51 results). non-trivial = a filter or a window is present, or an unsafe id",
    bounds={"quick": {"rows": 4, "streams": 2, "filter_items": 2}, "thorough": {"rows": 5, "streams": 3, "filter_items": 2}},
    not_judged=["frames with no result column at all (shape)", "stream ids that sanitise to the same name",
                "which axis columns appear for a stream that lacks the axis", "the roll-up column under include/exclude filters"],
    assumptions=[],
)


def safe_core(name):
    return re.sub(r"[^_a-zA-Z0-9]", "_", name)


def build_store(case):
    import pandas as pd

    from ioos_qc.config import Config
    from ioos_qc.stores import PandasStore
    from ioos_qc.streams import PandasStream

    n = case["n"]
    tab = S.table(n, shuffled=case.get("shuffled", False))
    q = max(n // 4, 1) if n > 8 else 1     # window bounds scale with the table
    cols = {"time": alpha.dt64(tab["time"]), "z": np.array(tab["z"]), "lat": np.array(tab["lat"]), "lon": np.array(tab["lon"])}
    for k in case.get("drop_axes", ()):   # a table that lacks some optional axis column
        cols.pop(k)
    srcs = {}
    for k, sid in enumerate(case["streams"]):
        srcs[sid] = np.array(S._col((S.V, S.W, S.Z)[k % 3], n), dtype="float64")
        cols[sid] = srcs[sid]
    df = pd.DataFrame(cols)
    mods = {}
    for t in case["tests"]:
        mods.setdefault(MODULE[t], {})[t] = TESTS[t]
    streams = {sid: mods for sid in case["streams"]}
    if case["ctx"] == "none":
        ctxs = [dict(streams=streams)]
    elif case["ctx"] == "partial":
        ctxs = [dict(start=S.T0 + q * S.DAY, end=S.T0 + 3 * q * S.DAY, streams=streams)]
    elif case["ctx"] == "empty":
        # a window that selects no row at all: the results exist, every row is "not evaluated"
        ctxs = [dict(start=S.T0 + (n + 5) * S.DAY, end=None, streams=streams)]
    elif case["ctx"] == "empty_then_partial":
        first = {sid: {m: dict(list(t.items())[:1]) for m, t in mods.items()} for sid in case["streams"]}
        ctxs = [dict(start=S.T0 + (n + 5) * S.DAY, end=S.T0 + (n + 9) * S.DAY, streams=streams), dict(start=S.T0 + q * S.DAY, end=S.T0 + 3 * q * S.DAY, streams=first)]
    elif case["ctx"] == "partial_then_all":
        # a windowed context followed by one that covers every row (which flag wins on the overlap is not judged here:
        # result columns are compared with the collected results; data and axes must equal the source on every row)
        ctxs = [dict(start=S.T0 + q * S.DAY, end=S.T0 + 3 * q * S.DAY, streams=streams), dict(start=S.T0 - 9 * S.DAY, end=None, streams=streams)]
    else:
        ctxs = [dict(start=None, end=S.T0 + 2 * q * S.DAY, streams=streams), dict(start=S.T0 + 3 * q * S.DAY, end=None, streams=streams)]
    cfg = Config(S.make_config(ctxs))
    if case.get("far"):
        # instants three centuries ahead (outside the range of nanosecond timestamps) in a second-resolution column
        shift = 320 * 365 * S.DAY
        tab["time"] = [t + shift for t in tab["time"]]
        df["time"] = np.array(tab["time"], dtype="int64").astype("datetime64[s]")
        for c in ctxs:
            for k in ("start", "end"):
                if c.get(k) is not None:
                    c[k] = c[k] + shift
        cfg = Config(S.make_config(ctxs))
    if case.get("renamed_first"):
        # earlier in the same process: another store whose axis columns are renamed (its frame is not judged here)
        other = PandasStore(PandasStream(df).run(cfg), axes=dict(t="timestamp", z="depth", y="latitude", x="longitude"))
        other.save(write_data=False, write_axes=True)
    store = PandasStore(PandasStream(df).run(cfg))
    masks = [S.ref_mask(tab["time"], c.get("start"), c.get("end")) for c in ctxs]
    # rows covered for EVERY configured result (the store may take a stream's data / the axes from any of its results)
    per = {}
    for c, m in zip(ctxs, masks):
        for sid, mods_ in c["streams"].items():
            for tests_ in mods_.values():
                for t in tests_:
                    cur = per.setdefault((sid, t), [False] * n)
                    per[(sid, t)] = [a or b for a, b in zip(cur, m)]
    covered = [all(v[i] for v in per.values()) for i in range(n)]
    return store, tab, srcs, covered


def item_of(tok):
    import importlib

    if tok == "fn:aggregate":
        from ioos_qc import qartod

        return qartod.aggregate
    if tok.startswith("fn:"):
        return getattr(importlib.import_module("ioos_qc." + MODULE[tok[3:]]), tok[3:])
    return tok


def passes(sid, test, include, exclude):
    def hit(lst):
        return any(t == sid or t == test or t == "fn:" + test for t in lst)
    if include is not None and not hit(include):
        return False
    if exclude is not None and hit(exclude):
        return False
    return True


def check_case(case):
    if case.get("kind") == "name":
        return check_name(case)
    built = alpha.call(build_store, case)
    if isinstance(built, alpha.Raised):
        return [V(f"{PROP}|store|symptom=build-raises:{built.name}", f"PandasStore(PandasStream.run) raised {built.name}: {built.msg}", None, repr(built))], True, None, 0, 1
    store, tab, srcs, covered = built
    n = case["n"]
    vs = []
    nexec = 0
    collected = {(c.stream_id, c.test): alpha.flags_of(c.results)[0] for c in store.collected_results}
    # (C06: a run collects exactly one result per configured (stream, module, test), also when its window selects no row;
    #  a result that is configured but missing from the store cannot have its column)
    for sid in case["streams"]:
        for t in case["tests"]:
            if (sid, t) not in collected:
                vs.append(V(f"{PROP}|store|ctx={case['ctx']}|symptom=configured-result-has-no-column", f"the store holds no result (hence no column) for the configured ({sid}, {t})", sorted(map(list, ((s_, t_) for s_ in case["streams"] for t_ in case["tests"]))), sorted(map(list, collected))))
    if case.get("aggregate"):
        if case["saves"]:
            sv0 = case["saves"][0]  # a save BEFORE the aggregate must not freeze what later saves return
            alpha.call(store.save, write_data=sv0["write_data"], write_axes=sv0["write_axes"],
                       include=None if sv0["include"] is None else [item_of(t) for t in sv0["include"]],
                       exclude=None if sv0["exclude"] is None else [item_of(t) for t in sv0["exclude"]])
        a = alpha.call(store.compute_aggregate)
        if isinstance(a, alpha.Raised):
            return [V(f"{PROP}|compute_aggregate|symptom=raises:{a.name}", f"compute_aggregate raised {a.name}: {a.msg}", None, repr(a))], True, None, 0, 1
    obs_all = []
    for sv in case["saves"]:
        include = None if sv["include"] is None else [item_of(t) for t in sv["include"]]
        exclude = None if sv["exclude"] is None else [item_of(t) for t in sv["exclude"]]
        df = alpha.call(store.save, write_data=sv["write_data"], write_axes=sv["write_axes"], include=include, exclude=exclude)
        nexec += 1
        fsig = f"include={'none' if include is None else len(include)}|exclude={'none' if exclude is None else len(exclude)}"
        if isinstance(df, alpha.Raised):
            vs.append(V(f"{PROP}|save|{fsig}|symptom=raises:{df.name}", f"save({sv}) raised {df.name}: {df.msg}", None, repr(df)))
            continue
        cols = [str(c) for c in df.columns]
        exp_results = {}
        for (sid, test), flags in collected.items():
            if passes(sid, test, sv["include"], sv["exclude"]):
                exp_results[(sid, test)] = flags
        if not exp_results and not sv["write_axes"]:
            continue  # frame without any column: shape not judged
        if len(df) != n:
            vs.append(V(f"{PROP}|save|{fsig}|symptom=row-count", f"frame has {len(df)} rows for {n} input rows", n, len(df)))
            continue
        used = set()
        for (sid, test), flags in exp_results.items():
            core = safe_core(f"{sid}_{MODULE[test]}_{test}")
            exact = f"{sid}_{MODULE[test]}_{test}"
            cands = [c for c in cols if c == core or (c.endswith(core) and CF.match(c))]
            if LETTER_FIRST.match(exact):
                cands = [c for c in cols if c == exact]
            if len(cands) != 1:
                vs.append(V(f"{PROP}|save|{fsig}|symptom=result-column-missing-or-ambiguous|safe-id={bool(LETTER_FIRST.match(sid))}",
                            f"no unique column for result ({sid}, {test}); columns {cols}", core, cols))
                continue
            c = cands[0]
            used.add(c)
            if not CF.match(c):
                vs.append(V(f"{PROP}|save|symptom=column-name-not-cf-safe", f"column {c!r} is not CF safe", "[A-Za-z_][A-Za-z0-9_]*", c))
            got = [None if (v is None or v != v) else int(v) for v in df[c].tolist()]
            if got != flags:
                vs.append(V(f"{PROP}|save|{fsig}|ctx={case['ctx']}|symptom=result-column-values", f"column {c} holds {got}, collected flags {flags} (None = not evaluated)", flags, got))
        rest = [c for c in cols if c not in used]
        roll = [c for c in rest if "rollup" in c]
        rest = [c for c in rest if c not in roll]
        axis_cols = [c for c in rest if c in ("time", "z", "lat", "lon")]
        other = [c for c in rest if c not in axis_cols]
        # no column for a filtered-out result
        for (sid, test) in collected:
            if (sid, test) not in exp_results:
                core = safe_core(f"{sid}_{MODULE[test]}_{test}")
                if any(c.endswith(core) for c in other):
                    vs.append(V(f"{PROP}|save|{fsig}|symptom=filtered-result-present", f"result ({sid}, {test}) should be filtered out but has a column", None, cols))
        other = [c for c in other if not any(c.endswith(safe_core(f"{sid}_{MODULE[t]}_{t}")) for (sid, t) in collected)]
        if sv["write_axes"]:
            want_axes = sorted(a for a in ("lat", "lon", "time", "z") if a not in case.get("drop_axes", ()))
            if sorted(a for a in axis_cols if a in want_axes) != want_axes:
                vs.append(V(f"{PROP}|save|symptom=axis-columns-missing", f"write_axes=True but axis columns are {axis_cols}", want_axes, axis_cols))
            else:
                for name, key in (("z", "z"), ("lat", "lat"), ("lon", "lon")):
                    if name not in want_axes:
                        continue
                    got = df[name].tolist()
                    if any(cv and got[i] != tab[key][i] for i, cv in enumerate(covered)):
                        vs.append(V(f"{PROP}|save|ctx={case['ctx']}|symptom=axis-column-values:{name}", f"axis column {name} is {got}, source {tab[key]}", tab[key], got))
                tgot = [None if str(v) == "NaT" else int(np.datetime64(v, "s").astype("int64")) for v in df["time"].to_numpy()]
                if any(cv and tgot[i] != tab["time"][i] for i, cv in enumerate(covered)):
                    vs.append(V(f"{PROP}|save|ctx={case['ctx']}|symptom=axis-column-values:time", f"time column is {tgot}", tab["time"], tgot))
        elif axis_cols:
            vs.append(V(f"{PROP}|save|symptom=axis-columns-unrequested", f"write_axes=False but frame has {axis_cols}", [], axis_cols))
        exp_data_streams = sorted({sid for (sid, _t) in exp_results}) if sv["write_data"] else []
        all_streams = sorted({sid for (sid, _t) in collected})
        # every stream with a passing result needs its data column; columns for the run's other streams are tolerated
        if (not sv["write_data"] and other) or len(other) < len(exp_data_streams) or len(other) > len(all_streams):
            vs.append(V(f"{PROP}|save|{fsig}|write_data={sv['write_data']}|symptom=data-columns", f"data columns {other}, expected one per stream {exp_data_streams}", exp_data_streams, other))
        elif sv["write_data"]:
            for sid in exp_data_streams:
                ok = any(all((not cv) or df[c].tolist()[i] == srcs[sid][i] for i, cv in enumerate(covered)) for c in other)
                if not ok:
                    vs.append(V(f"{PROP}|save|ctx={case['ctx']}|symptom=data-column-values", f"no data column equals the source of stream {sid!r} on covered rows", srcs[sid].tolist(), {c: df[c].tolist() for c in other}))
        if case.get("aggregate") and (sv["include"] is not None or sv["exclude"] is not None):
            # the roll-up is itself a result: test name "rollup", function qartod.aggregate - filters apply to it by either
            hit = lambda lst: any(t in ("rollup", "fn:aggregate") for t in lst)
            want_roll = (sv["include"] is None or hit(sv["include"])) and not (sv["exclude"] is not None and hit(sv["exclude"]))
            if want_roll != bool(roll):
                vs.append(V(f"{PROP}|save|{fsig}|symptom=rollup-column-{'missing' if want_roll else 'not-filtered-out'}",
                            f"save(include={sv['include']}, exclude={sv['exclude']}) {'lacks' if want_roll else 'still has'} the roll-up column", want_roll, roll))
        if case.get("aggregate") and sv["include"] is None and sv["exclude"] is None:
            exp = R.aggregate([[v for v in flags] for flags in collected.values()])
            if len(roll) != 1:
                vs.append(V(f"{PROP}|save|symptom=rollup-column-missing", f"no single roll-up column in {cols}", "1 rollup column", roll))
            else:
                got = [None if v != v else int(v) for v in df[roll[0]].tolist()]
                if got != exp:
                    vs.append(V(f"{PROP}|save|ctx={case['ctx']}|symptom=rollup-values", f"roll-up column is {got}, aggregate of the test results is {exp}", exp, got))
                if not CF.match(roll[0]):
                    vs.append(V(f"{PROP}|save|symptom=column-name-not-cf-safe", f"column {roll[0]!r} is not CF safe", None, roll[0]))
        obs_all.append(tuple(cols))
        if len(vs) > 6:
            break
    nt = case["ctx"] != "none" or any(not CF.match(s) for s in case["streams"]) or len(case["saves"]) > 4
    return vs, nt, tuple(obs_all), 0, max(nexec, 1)


def check_name(case):
    from ioos_qc.utils import cf_safe_name

    out = alpha.call(cf_safe_name, case["name"])
    if isinstance(out, alpha.Raised):
        return [V(f"{PROP}|cf_safe_name|symptom=raises:{out.name}", f"cf_safe_name({case['name']!r}) raised {out.name}", None, repr(out))], True, None, 0, 1
    vs = []
    if not isinstance(out, str) or not CF.match(out):
        first = "digit" if case["name"][0].isdigit() else ("underscore" if case["name"][0] == "_" else "other")
        vs.append(V(f"{PROP}|cf_safe_name|first-char={first}|symptom=not-cf-safe", f"cf_safe_name({case['name']!r}) = {out!r} is not a CF-safe name", "[A-Za-z_][A-Za-z0-9_]*", out))
    elif CF.match(case["name"]) and not case["name"][0] == "_" and out != case["name"]:
        vs.append(V(f"{PROP}|cf_safe_name|symptom=safe-name-changed", f"cf_safe_name changed the already safe name {case['name']!r} to {out!r}", case["name"], out))
    return vs, not CF.match(case["name"]), out, 0, 1


def replay(case):
    return check_case(case)[0]


def save_variants(streams, tests):
    out = []
    for wd in (False, True):
        for wa in (False, True):
            out.append(dict(write_data=wd, write_axes=wa, include=None, exclude=None))
    pool = list(streams) + list(TESTS) + ["fn:" + t for t in TESTS]
    lists = [[]] + [[a] for a in pool] + [[a, b] for a in pool for b in pool]
    for l in lists:
        out.append(dict(write_data=False, write_axes=False, include=l, exclude=None))
        if len(l) <= 1:
            out.append(dict(write_data=False, write_axes=True, include=l, exclude=None))
            out.append(dict(write_data=False, write_axes=True, include=l + ["rollup"], exclude=None))
        out.append(dict(write_data=True, write_axes=True, include=None, exclude=l))
    for a in pool:
        for b in pool:
            out.append(dict(write_data=True, write_axes=False, include=[a], exclude=[b]))
    for tok in ("fn:aggregate", "rollup"):
        out.append(dict(write_data=False, write_axes=False, include=None, exclude=[tok]))
        out.append(dict(write_data=False, write_axes=False, include=[tok], exclude=None))
        out.append(dict(write_data=False, write_axes=True, include=[streams[0], tok], exclude=None))
        out.append(dict(write_data=True, write_axes=False, include=["fn:gross_range_test"], exclude=[tok]))
    return out


def tasks(tier):
    ts = []
    n = 4 if tier == "quick" else 5
    sets = [[s] for s in IDS] + [list(p) for p in itertools.combinations(IDS, 2)]
    if tier == "thorough":
        sets += [list(p) for p in itertools.combinations(IDS, 3)]
    for ss in sets:
        for tests in (["gross_range_test"], ["spike_test"], ["gross_range_test", "spike_test"], ["valid_range_test", "gross_range_test"]):
            ts.append(("store", n, ss, tests))
    ts.append(("store_hist", 5, ["v1", "2x"], ["gross_range_test", "spike_test"]))
    for drop in (["z"], ["lat", "lon"], ["z", "lat"]):
        ts.append(("store_drop", 5, ["v1", "2x"], ["gross_range_test", "spike_test"], drop))
    for ss in (["v1"], ["2x", "a b"]):
        ts.append(("store", 30, ss, ["gross_range_test", "spike_test"]))
        ts.append(("store", 300, ss, ["gross_range_test", "spike_test"]))
        ts.append(("store", 1500, ss, ["gross_range_test"]))
    # many collected results: 9-17 streams x 2-3 tests
    for k in (9, 11, 12, 17):
        ts.append(("store", 6, [f"s{j}" for j in range(k)], ["gross_range_test", "spike_test", "valid_range_test"]))
        ts.append(("store", 6, [f"s{j}" for j in range(k)], ["gross_range_test", "spike_test"]))
    ts.append(("names", 3 if tier == "quick" else 4))
    return ts


def run_task(task, acc):
    if task[0] == "store_hist":
        _, n, ss, tests = task

        def gen_h():
            for ctx in CTX_KINDS:
                for agg in (False, True):
                    svs = save_variants(ss, tests)[:4]
                    yield dict(n=n, streams=ss, tests=tests, ctx=ctx, aggregate=agg, saves=svs, renamed_first=True)
                    yield dict(n=n, streams=ss, tests=tests, ctx=ctx, aggregate=agg, saves=svs, far=True)
        run_cases(acc, gen_h(), check_case)
        return
    if task[0] == "store_drop":
        _, n, ss, tests, drop = task

        def gen_d():
            for ctx in CTX_KINDS:
                for agg in (False, True):
                    svs = save_variants(ss, tests)
                    svs = svs[:4] + [dict(write_data=True, write_axes=True, include=[ss[0]], exclude=None), dict(write_data=False, write_axes=True, include=None, exclude=["spike_test"])]
                    yield dict(n=n, streams=ss, tests=tests, ctx=ctx, aggregate=agg, saves=svs, drop_axes=drop)
        run_cases(acc, gen_d(), check_case)
        return
    if task[0] == "store":
        _, n, ss, tests = task

        def gen():
            for ctx in CTX_KINDS:
                for agg in (False, True):
                    svs = save_variants(ss, tests)
                    if len(ss) > 3 or n > 100:
                        svs = svs[:4] + [dict(write_data=True, write_axes=True, include=[ss[0]], exclude=None),
                                         dict(write_data=False, write_axes=False, include=None, exclude=["spike_test"]),
                                         dict(write_data=False, write_axes=True, include=[ss[-1], "fn:gross_range_test"], exclude=None)]
                    if n > 100:
                        yield dict(n=n, streams=ss, tests=tests, ctx=ctx, aggregate=agg, saves=svs, shuffled=True)
                    # one state per (run, save variant group): keep groups small so a replay is short
                    for i in range(0, len(svs), 12):
                        yield dict(n=n, streams=ss, tests=tests, ctx=ctx, aggregate=agg, saves=svs[i:i + 12])
        run_cases(acc, gen(), check_case)
    else:
        def gen():
            for s in alpha.all_seqs(CHARS, 1, task[1]):
                yield dict(kind="name", name="".join(s))
        run_cases(acc, gen(), check_case)
