"""Registry of the 11 QC test functions: how to build a call from a logical case.

A *logical case* is: data symbols (floats / "nan" / None), optional aux symbol lists
(z, lon, lat), absolute epoch seconds for the time axis, and a cfg dict of JSON-safe
parameters.  `build()` turns it into (callable, args, kwargs, shared) where `shared`
lists the caller-owned objects whose immutability C01 watches.
"""
from __future__ import annotations

import copy

import numpy as np

from mc import alpha

NAN = alpha.NAN

# kind: "series" (one data series), "position" (lon/lat pairs are the observations)
SPECS = {
    "gross_range_test": dict(mod="qartod", kind="series", needs=(), none_ok=True, cfgs=[
        dict(fail_span=[0, 3]),
        dict(fail_span=[0, 3], suspect_span=[1, 2]),
        dict(fail_span=(3, 0), suspect_span=(2, 1), _tuple=True),
        dict(fail_span=[3, 0], suspect_span=[2, 1]),   # bounds in descending order, as lists (caller-owned objects)
    ]),
    "valid_range_test": dict(mod="axds", kind="series", needs=(), none_ok=True, cfgs=[
        dict(valid_span=[1, 3]),
        dict(valid_span=[None, 3]),
        dict(valid_span=(1, None), start_inclusive=False, end_inclusive=True, _tuple=True),
        dict(valid_span=[1, 3], dtype="float64"),
    ]),
    "climatology_test": dict(mod="qartod", kind="series", needs=("t", "z"), none_ok=True, cfgs=[
        dict(config=[]),
        dict(config=[dict(tspan=["2019-12-01", "2020-12-31"], vspan=[0.5, 2])]),
        dict(config=[dict(tspan=[1, 2], period="month", vspan=[0.5, 2], fspan=[0, 2.5], zspan=[0, 10])]),
        dict(config=[dict(tspan=[1, 53], period="week", vspan=[0.5, 2], zspan=[5, 100]),
                     dict(tspan=[1, 1], period="dayofyear", vspan=[2, 5])]),
        dict(config=[dict(tspan=[1, 4], period="quarter", vspan=[0.5, 2])], _object=True),
        dict(config=[dict(tspan=[1, 12], period="month", vspan=[0.5, 2]), dict(tspan=["2019-12-01", "2020-12-31"], vspan=[2, 5], zspan=[0, 100]),
                     dict(tspan=[1, 53], period="week", vspan=[0, 1])]),
        # absolute bounds centuries away (outside the range of nanosecond timestamps)
        dict(config=[dict(tspan=["1600-01-01", "2300-01-01"], vspan=[0.5, 2], fspan=[0, 2.5])]),
    ]),
    "spike_test": dict(mod="qartod", kind="series", needs=(), none_ok=True, cfgs=[
        dict(),
        dict(suspect_threshold=1),
        dict(fail_threshold=2),
        dict(suspect_threshold=1, fail_threshold=2, method="differential"),
        dict(suspect_threshold=2, fail_threshold=1),
    ]),
    "rate_of_change_test": dict(mod="qartod", kind="series", needs=("t",), none_ok=True, cfgs=[
        dict(threshold=0.5), dict(threshold=0.01),
    ]),
    "flat_line_test": dict(mod="qartod", kind="series", needs=("t",), none_ok=True, cfgs=[
        dict(suspect_threshold=60, fail_threshold=120, tolerance=1),
        dict(suspect_threshold=120, fail_threshold=60, tolerance=2),
        dict(suspect_threshold=30.5, fail_threshold=1000),
    ]),
    "attenuated_signal_test": dict(mod="qartod", kind="series", needs=("t",), none_ok=True, cfgs=[
        dict(suspect_threshold=1.2, fail_threshold=0.4),
        dict(suspect_threshold=1.2, fail_threshold=0.4, check_type="range"),
        dict(suspect_threshold=1.2, fail_threshold=0.4, test_period=120, min_obs=2),
        dict(suspect_threshold=1.2, fail_threshold=0.4, test_period=120, min_period=60, check_type="range"),
        dict(suspect_threshold=1.2, fail_threshold=0.4, test_period=60),
    ]),
    "density_inversion_test": dict(mod="qartod", kind="series", needs=("z",), none_ok=True, cfgs=[
        dict(), dict(suspect_threshold=-0.5), dict(fail_threshold=-1), dict(suspect_threshold=-0.5, fail_threshold=-1),
    ]),
    "location_test": dict(mod="qartod", kind="position", needs=(), none_ok=True, cfgs=[
        dict(), dict(bbox=[-10, -5, 10, 5]), dict(range_max=100_000), dict(bbox=(-10, -5, 10, 5), range_max=100_000, _tuple=True),
        dict(bbox=[0.5, 30, 40, 70]),
    ]),
    "speed_test": dict(mod="argo", kind="position", needs=("t",), none_ok=True, cfgs=[
        dict(suspect_threshold=1000, fail_threshold=3000), dict(suspect_threshold=1e9, fail_threshold=1e9),
    ]),
    "pressure_increasing_test": dict(mod="argo", kind="series", needs=(), none_ok=False, cfgs=[dict()]),
}

# position alphabet for position tests: index -> (lon, lat)
POSITIONS = ((0.0, 0.0), (1.0, 60.0), (NAN, 0.0), (0.0, NAN), (NAN, NAN), (None, None), (None, 0.0))


def func(name):
    import importlib

    spec = SPECS[name]
    return getattr(importlib.import_module(f"ioos_qc.{spec['mod']}"), name)


def carrier(vals, how):
    """vals: list of symbols -> the object handed to the test."""
    if how == "nd":
        return alpha.nd(vals)
    if how == "list":
        return alpha.pylist(vals)
    if how == "tuple":
        return tuple(alpha.pylist(vals))
    if how == "ndbe":  # big-endian float64 (what scipy's NetCDF-3 reader hands out)
        return alpha.nd(vals).astype(">f8")
    if how == "ndf4":
        return alpha.nd(vals).astype("float32")
    if how in ("ndi", "listi"):  # integer-typed carriers (int64 ndarray / list of python ints); None when not representable
        if any(v in (NAN, None) or float(v) != int(v) for v in vals):
            return None
        return np.array([int(v) for v in vals], dtype="int64") if how == "ndi" else [int(v) for v in vals]
    if how == "mai":  # integer masked array (missing = masked, 7 underneath); None when a value is not integral
        if any(v not in (NAN, None) and float(v) != int(v) for v in vals):
            return None
        miss = [v in (NAN, None) for v in vals]
        return np.ma.MaskedArray(np.array([7 if m else int(v) for v, m in zip(vals, miss)], dtype="int64"), mask=miss)
    if how == "ma2":  # masked array with an explicit all-False mask and un-masked NaNs
        return np.ma.MaskedArray(alpha.nd(vals), mask=np.zeros(len(vals), dtype=bool))
    if how == "ma":  # masked array with adversarial data under the mask
        miss = [v in (NAN, None) for v in vals]
        return np.ma.MaskedArray(np.array([999.0 if m else float(v) for v, m in zip(vals, miss)], dtype="float64"), mask=miss)
    raise KeyError(how)


def build_cfg(name, cfg):
    """JSON-safe cfg -> kwargs (fresh objects each time)."""
    kw = {}
    for k, v in cfg.items():
        if k.startswith("_"):
            continue
        kw[k] = copy.deepcopy(v)
    if cfg.get("_tuple"):
        for k, v in kw.items():
            if isinstance(v, list):
                kw[k] = tuple(v)
    if "dtype" in kw:
        kw["dtype"] = np.dtype(kw["dtype"])
    if name == "climatology_test":
        members = [{k: (tuple(v) if isinstance(v, list) else v) for k, v in m.items()} for m in kw["config"]]
        if cfg.get("_object"):
            from ioos_qc.qartod import ClimatologyConfig

            c = ClimatologyConfig()
            for m in members:
                c.add(**m)
            kw["config"] = c
        else:
            kw["config"] = members
    return kw


def z_for(x, mode):
    n = len(x)
    ramp = [5.0 * i for i in range(n)]
    if mode == "ramp":
        return ramp
    if mode == "shifted":  # the data's missing pattern shifted by one position
        return [NAN if (x[(i - 1) % n] in (NAN, None)) else ramp[i] for i in range(n)] if n else []
    if mode == "allmissing":
        return [NAN] * n
    raise KeyError(mode)


def build(name, cfg, x, how="nd", zmode="ramp", z=None, secs=None, lon=None, lat=None):
    """-> (fn, kwargs, shared) ; `shared` = dict name -> caller-owned object."""
    spec = SPECS[name]
    fn = func(name)
    kw = build_cfg(name, cfg)
    n = len(x)
    shared = {}
    if spec["kind"] == "series":
        inp = carrier(x, how)
        kw["inp"] = inp
        shared["inp"] = inp
    else:
        if lon is None:
            lon = [POSITIONS[i][0] for i in x]
            lat = [POSITIONS[i][1] for i in x]
        kw["lon"] = carrier(lon, how)
        kw["lat"] = carrier(lat, how)
        shared["lon"], shared["lat"] = kw["lon"], kw["lat"]
    if "t" in spec["needs"]:
        secs = secs if secs is not None else alpha.regular_secs(n)
        kw["tinp"] = alpha.dt64(secs)
        shared["tinp"] = kw["tinp"]
    if "z" in spec["needs"]:
        zz = z if z is not None else z_for(x, zmode)
        kw["zinp"] = carrier(zz, how)
        shared["zinp"] = kw["zinp"]
    for k in ("fail_span", "suspect_span", "valid_span", "bbox", "config"):
        if k in kw:
            shared[k] = kw[k]
    return fn, kw, shared


def fingerprint(obj):
    """A value that changes iff the caller-visible content of obj changes."""
    if isinstance(obj, np.ma.MaskedArray):
        return ("ma", obj.dtype.str, obj.shape, np.ma.getdata(obj).tobytes(), np.ma.getmaskarray(obj).tobytes())
    if isinstance(obj, np.ndarray):
        return ("nd", obj.dtype.str, obj.shape, obj.tobytes())
    if isinstance(obj, (list, tuple)):
        return (type(obj).__name__, tuple(fingerprint(v) for v in obj))
    if isinstance(obj, dict):
        return ("dict", tuple((k, fingerprint(v)) for k, v in obj.items()))
    if hasattr(obj, "members") and hasattr(obj, "check"):  # ClimatologyConfig
        return ("clim", tuple(repr(m) for m in obj.members))
    return repr(obj)
