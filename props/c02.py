"""C02 - a missing observation is never reported as evaluated (and MISSING is never invented)."""
from __future__ import annotations

import datetime as dt
import itertools

import numpy as np

from mc import alpha
from refmodel import qc as R

from . import registry as G
from .common import V, run_cases

PROP = "C02"
NAN = alpha.NAN
NMAX = {"quick": 4, "thorough": 6}
BUDGET = {"quick": 900, "thorough": 3400}
DAY = 86400

META = dict(
    rule="for every test that documents missing-data handling x parameter sets (incl. every climatology member shape: "
         "{no depth span, depth span} x {absolute, month, week, dayofyear, quarter} x {fspan, none}, one- and "
         "two-member lists): every series of length 0..N over {v1, v2, missing} with missing spelt NaN (ndarray), masked-with-999-underneath (masked array) and "
         "NaN/None (list), times the full product of presence masks of the auxiliary input (2^n depth masks for "
         "climatology/density; 4^n lon/lat presence pairs x 2 value patterns for location/speed). Oracle per position: "
         "missing observation -> flag in {MISSING} (+UNKNOWN where the test is undefined irrespective of the value: "
         "spike end points, first speed point, single-point density, climatology point no member matches, attenuated "
         "window below the minimum); present observation flagged MISSING -> a needed input (own depth/coordinates, the "
         "neighbour it is differenced against) must be missing. + 2-D inputs in C / Fortran / transposed layout (NaN and masked) for the pointwise tests: MISSING must sit on the missing elements. Scale: 3000-point series per test (ndarray and masked), the same long array refilled in place between two calls, and a longer record with gaps around index n before the judged n-point record (n=600, 1500); 3000-level density profiles and 2500-fix tracks. non-trivial = the case contains a missing marker",
    bounds={"quick": {"max_len": 4}, "thorough": {"max_len": 6}},
    not_judged=["which of GOOD/SUSPECT/FAIL a present point gets (C03-C14)",
                "positions with exactly one coordinate missing count as present (C14 makes them FAIL)"],
    assumptions=[],
)

# ---- configuration menus -----------------------------------------------------------------
TK = {
    "absolute": dict(tspan=["2020-01-01", "2020-03-01"]),
    "month": dict(tspan=[1, 2], period="month"),
    "week": dict(tspan=[1, 9], period="week"),
    "dayofyear": dict(tspan=[1, 60], period="dayofyear"),
    "quarter": dict(tspan=[1, 1], period="quarter"),
}


def clim_member(kind, z, f):
    m = dict(TK[kind])
    m["vspan"] = [0.5, 2]
    if f:
        m["fspan"] = [0, 2.5]
    if z:
        m["zspan"] = [0, 10]
    return m


def clim_cfgs():
    out = []
    for kind in TK:
        for z in (False, True):
            for f in (False, True):
                out.append([clim_member(kind, z, f)])
    for a in TK:
        for b in TK:
            out.append([clim_member(a, False, True), clim_member(b, True, False)])
            out.append([clim_member(b, True, True), clim_member(a, False, False)])
    return out


CLIM = clim_cfgs()
SERIES_TESTS = ["gross_range_test", "valid_range_test", "spike_test", "rate_of_change_test", "flat_line_test", "attenuated_signal_test"]
# data values: v1 inside every span, v2 outside
V1, V2 = 1.0, 30.0
# times for climatology: Jan 15 2020 + 40 d steps -> months 1,2,4,5,6 (members match the first two)
CSECS = [alpha.T0 + 14 * DAY + i * 40 * DAY for i in range(8)]


def check_layout(case):
    from ioos_qc import axds, qartod

    base = np.array([[np.nan if v is None else v for v in row] for row in case["grid"]], dtype="float64")
    arr = {"C": base, "F": np.asfortranarray(base), "T": np.ascontiguousarray(base.T).T}[case["order"]]
    if case["masked"]:
        arr = np.ma.MaskedArray(np.where(np.isnan(arr), 999.0, arr), mask=np.isnan(arr))
        if case["order"] == "F":
            arr = np.ma.MaskedArray(np.asfortranarray(arr.data), mask=np.asfortranarray(arr.mask))
    which = case["which"]
    if which == "gross":
        out = alpha.call(qartod.gross_range_test, arr, [0, 50], suspect_span=[0, 10])
    elif which == "valid":
        out = alpha.call(axds.valid_range_test, arr, [0, 50])
    else:
        out = alpha.call(qartod.location_test, arr, arr.copy(), bbox=[0, 0, 60, 60])
    if isinstance(out, alpha.Raised):
        return [V(f"{PROP}|{which}|2d-{case['order']}|symptom=raises:{out.name}", f"{which} raised {out.name} on a 2-D {case['order']}-ordered array", None, repr(out))], True, None, 0
    got = np.ma.getdata(np.asanyarray(out))
    vs = []
    if got.shape != base.shape:
        vs.append(V(f"{PROP}|{which}|2d-{case['order']}|symptom=shape", f"flags of shape {got.shape} for input {base.shape}", list(base.shape), list(got.shape)))
    else:
        miss = np.isnan(base)
        if not np.array_equal(got == R.MISSING, miss):
            vs.append(V(f"{PROP}|{which}|2d-{case['order']}|masked={case['masked']}|symptom=missing-flag-on-wrong-element",
                        f"{which} on a 2-D {case['order']}-ordered array: MISSING flags do not sit on the missing elements", miss.astype(int).tolist(), got.tolist()))
    return vs, True, tuple(got.reshape(-1).tolist()), 0


def tasks(tier):
    n = NMAX[tier]
    ts = [("layout",), ("via",)]
    for name in SERIES_TESTS:
        for ci in range(len(G.SPECS[name]["cfgs"])):
            ts.append(("series", name, ci, n))
    for i in range(len(CLIM)):
        ts.append(("clim", i, n))
    for ci in range(len(G.SPECS["density_inversion_test"]["cfgs"])):
        ts.append(("dens", ci, n))
    for name in ("location_test", "speed_test"):
        for ci in range(len(G.SPECS[name]["cfgs"])):
            ts.append(("pos", name, ci, n))
    return ts


def miss(s):
    return s is None or s == NAN


def _dt(s):
    return dt.datetime(1970, 1, 1) + dt.timedelta(seconds=int(s))


def clim_ref_members(members):
    out = []
    for m in members:
        r = dict(m)
        if "period" not in m:
            r["tspan"] = [dt.datetime.fromisoformat(s) for s in m["tspan"]]
        out.append(r)
    return out


def allowed_for_missing(name, cfg, case, i):
    """Flags acceptable at a position whose observation is missing."""
    x = case.get("x")
    n = len(x) if x is not None else len(case["lon"])
    if name == "spike_test" and (i == 0 or i == n - 1):
        return R.UM
    if name == "speed_test" and i == 0:
        return R.UM
    if name == "density_inversion_test" and n == 1:
        return R.UM
    if name == "climatology_test":
        xx = [V1 if j == i else None for j in range(n)]
        acc = R.climatology(clim_ref_members(cfg["config"]), xx, [_dt(s) for s in case["secs"]], alpha.ref(case["z"]))
        return R.UM if acc[i] == R.U else R.M
    if name == "attenuated_signal_test":
        xx = alpha.ref(x)
        xx[i] = 0.0
        acc, _ = R.attenuated(xx, case["secs"], cfg["suspect_threshold"], cfg["fail_threshold"], cfg.get("test_period"),
                              cfg.get("min_obs"), cfg.get("min_period"), cfg.get("check_type", "std"))
        a = acc[i]
        return R.UM if (a is None or R.UNKNOWN in a) else R.M
    return R.M


def needed_missing(name, case, i):
    """True iff some input the test needs to judge (present) position i is missing."""
    x = case.get("x")
    if name in ("climatology_test",):
        return miss(case["z"][i])
    if name == "density_inversion_test":
        z = case["z"]
        return miss(z[i]) or (i > 0 and (miss(x[i - 1]) or miss(z[i - 1])))
    if name == "spike_test":
        n = len(x)
        return (i > 0 and miss(x[i - 1])) or (i < n - 1 and miss(x[i + 1]))
    if name == "rate_of_change_test":
        return i > 0 and miss(x[i - 1])
    if name in ("location_test", "speed_test"):
        lon, lat = case["lon"], case["lat"]
        return miss(lon[i]) or miss(lat[i]) or (i > 0 and (miss(lon[i - 1]) or miss(lat[i - 1])))
    return False


def check_case(case):
    if "grid" in case:
        return check_layout(case)
    name, cfg, how = case["fn"], case["cfg"], case["how"]
    spec = G.SPECS[name]
    pos = spec["kind"] == "position"
    if pos:
        n = len(case["lon"])
        built = alpha.call(G.build, name, cfg, list(range(n)), how, secs=case.get("secs"), lon=case["lon"], lat=case["lat"])
        obs_missing = [miss(a) and miss(b) for a, b in zip(case["lon"], case["lat"])]
        has_missing = any(miss(a) or miss(b) for a, b in zip(case["lon"], case["lat"]))
    else:
        x = case["x"]
        n = len(x)
        built = alpha.call(G.build, name, cfg, x, how, z=case.get("z"), secs=case.get("secs"))
        obs_missing = [miss(s) for s in x]
        has_missing = any(obs_missing) or any(miss(s) for s in (case.get("z") or []))
    if isinstance(built, alpha.Raised):
        return [V(f"{PROP}|{name}|symptom=config-{built!r}", f"building parameters raised {built.name}: {built.msg}")], True, None, 0
    fn, kw, _ = built
    if case.get("pre") is not None:
        # an earlier call of the same test in the same process: either on its own (longer) record, or on the very array
        # objects the judged call then receives refilled in place (an acquisition buffer)
        pre = case["pre"]
        if case.get("refill"):
            now = {k: kw[k].copy() for k in ("inp", "zinp", "lon", "lat") if isinstance(kw.get(k), np.ndarray)}
            pb = G.build(name, cfg, pre["x"] if not pos else list(range(n)), how, z=pre.get("z"), secs=case.get("secs"), lon=pre.get("lon"), lat=pre.get("lat"))[1]
            for k in now:
                kw[k][...] = pb[k]
            alpha.call(fn, **kw)
            for k, v in now.items():
                kw[k][...] = v
        else:
            pb = G.build(name, cfg, pre["x"] if not pos else list(range(len(pre["lon"]))), how, z=pre.get("z"), secs=pre.get("secs"), lon=pre.get("lon"), lat=pre.get("lat"))
            alpha.call(pb[0], **pb[1])
    if case.get("via"):
        # the same series handed to the test by a front end (NumpyStream / QcConfig.run) instead of a direct call
        def through():
            import warnings

            from ioos_qc.config import Config, QcConfig
            from ioos_qc.results import collect_results
            from ioos_qc.streams import NumpyStream

            cfgd = {spec["mod"]: {name: G.build_cfg(name, cfg)}}
            axes = dict(time=kw.get("tinp"), z=kw.get("zinp"), lat=kw.get("lat"), lon=kw.get("lon"))
            data = kw["inp"] if not pos else kw["lon"]
            if case["via"] == "qcconfig":
                with warnings.catch_warnings():
                    warnings.simplefilter("ignore")
                    r = QcConfig(cfgd).run(inp=data, tinp=axes["time"], zinp=axes["z"], lat=axes["lat"], lon=axes["lon"])
                return r[spec["mod"]][name]
            res = list(NumpyStream(inp={"v": data}, **{k: v for k, v in axes.items() if v is not None}).run(Config({"streams": {"v": cfgd}})))
            return collect_results(res, how="list")[0].results
        fn, kw_call = through, {}
    else:
        kw_call = kw
    out = alpha.call(fn, **kw_call)
    if isinstance(out, alpha.Raised):
        return [V(f"{PROP}|{name}|symptom=raises:{out.name}", f"{name} raised {out.name}: {out.msg}", None, repr(out))], has_missing, ("exc", out.name), 0
    vals, _, problems = alpha.flags_of(out)
    if vals is None or len(vals) != n:
        return [V(f"{PROP}|{name}|symptom=shape", f"{name} returned {vals!r} for {n} inputs", n, vals)], has_missing, None, 0
    vs = []
    shape = ""
    if case.get("via"):
        shape = f"|via={case['via']}"
    if name == "climatology_test":
        shape = "|members=" + "+".join((m.get("period") or "absolute") + ("/z" if "zspan" in m else "") for m in cfg["config"])
    for i in range(n):
        if obs_missing[i]:
            allowed = allowed_for_missing(name, cfg, case, i)
            if vals[i] not in allowed:
                cls = "missing-observation"
                if name in ("climatology_test", "density_inversion_test"):
                    cls += ",depth=" + ("missing" if miss(case["z"][i]) else "present")
                vs.append(V(f"{PROP}|{name}{shape}|{cls}|n={'<3' if n < 3 else '3+'}|observed={vals[i]}",
                            f"{name}: observation {i} is missing but is flagged {vals[i]} (acceptable {sorted(allowed)})",
                            {"index": i, "acceptable": sorted(allowed)}, vals, size=n * 100 + i))
        elif vals[i] == R.MISSING and not needed_missing(name, case, i):
            vs.append(V(f"{PROP}|{name}{shape}|present-observation|observed=9",
                        f"{name}: observation {i} is present and everything it needs is present, yet it is flagged MISSING",
                        {"index": i, "acceptable": "not 9"}, vals, size=n * 100 + i))
    return vs, has_missing, tuple(vals), 0


def replay(case):
    return check_case(case)[0]


def run_task(task, acc):
    kind = task[0]
    if kind == "layout":
        def gen():
            grids = [[[1.0, None, 3.0], [4.0, 5.0, 60.0]], [[None, 3.0], [4.0, None], [2.0, 1.0]], [[1.0, 2.0, None, 0.0]], [[None], [2.0], [70.0]]]
            for g in grids:
                for order in ("C", "F", "T"):
                    for which in ("gross", "valid", "location"):
                        for masked in (False, True):
                            yield dict(grid=g, order=order, which=which, masked=masked)
        run_cases(acc, gen(), check_case)
        return
    if kind == "via":
        def gen():
            for name in SERIES_TESTS + ["density_inversion_test", "location_test"]:
                for ci, cfg in enumerate(G.SPECS[name]["cfgs"][:3]):
                    for via in ("numpystream", "qcconfig"):
                        if G.SPECS[name]["kind"] == "position":
                            for pres in itertools.product(((True, True), (False, False), (True, False)), repeat=3):
                                lon = [float(j) if p[0] else NAN for j, p in enumerate(pres)]
                                lat = [float(j) if p[1] else NAN for j, p in enumerate(pres)]
                                yield dict(fn=name, cfg=cfg, lon=lon, lat=lat, secs=alpha.regular_secs(3, 3600), how="ma", via=via)
                            continue
                        for x in alpha.all_seqs((0.0, 2.0, NAN), 1, 4):
                            if NAN not in x:
                                continue
                            c = dict(fn=name, cfg=cfg, x=list(x), how="ma", secs=alpha.regular_secs(len(x)), via=via)
                            if name == "density_inversion_test":
                                c["z"] = [float(10 + j) for j in range(len(x))]
                            yield c
        run_cases(acc, gen(), check_case)
        return
    if kind == "series":
        _, name, ci, n = task
        cfg = G.SPECS[name]["cfgs"][ci]

        def gen():
            for how, al in (("nd", (0.0, 2.0, NAN)), ("list", (0.0, 2.0, NAN, None)), ("ma", (0.0, 2.0, NAN)), ("ma2", (0.0, 2.0, NAN))):
                for x in alpha.all_seqs(al, 0, n + 1 if how == "nd" else n):
                    if how in ("ma", "ma2") and not any(s == NAN for s in x):
                        continue
                    if how == "list" and not any(s is None for s in x) and len(x) > 2:
                        continue  # the None-free lists only differ from the ndarray run by the carrier (C15)
                    yield dict(fn=name, cfg=cfg, x=list(x), how=how, secs=alpha.regular_secs(len(x)))
                long_x = alpha.debruijn(tuple(al), 4) * 3
                yield dict(fn=name, cfg=cfg, x=list(long_x), how=how, secs=alpha.regular_secs(len(long_x)))
                if name == "attenuated_signal_test" or how == "list":
                    continue  # (the oracle for windowed statistics is quadratic; lists only differ by the carrier)
                big = list(alpha.xl(tuple(al), 3000, 4))
                yield dict(fn=name, cfg=cfg, x=big, how=how, secs=alpha.regular_secs(len(big)))
                # the same long array refilled in place between two calls (missing pattern moved)
                other = big[7:] + big[:7]
                yield dict(fn=name, cfg=cfg, x=big, how=how, secs=alpha.regular_secs(len(big)), pre=dict(x=other), refill=True)
                # a longer record with gaps around the judged record's last index, then the judged (gap-free) record
                for ln in (600, 1500):
                    clean = [s for s in big if not miss(s)][:ln]
                    longer = [s for s in big if not miss(s)][: ln + 150]
                    for j in (ln - 3, ln - 2, ln - 1, ln, ln + 1):
                        longer[j] = NAN
                    yield dict(fn=name, cfg=cfg, x=clean, how=how, secs=alpha.regular_secs(ln),
                               pre=dict(x=longer, secs=alpha.regular_secs(ln + 150)))
        run_cases(acc, gen(), check_case)
    elif kind == "clim":
        _, i, n = task
        cfg = dict(config=CLIM[i])

        def gen():
            for k in range(0, n + 1):
                for x in itertools.product((V1, V2, NAN), repeat=k):
                    for z in itertools.product((5.0, 50.0, NAN) if k <= 2 else (5.0, NAN), repeat=k):
                        yield dict(fn="climatology_test", cfg=cfg, x=list(x), z=list(z), secs=CSECS[:k], how="nd")
                if k <= 3:
                    for x in itertools.product((V1, None, NAN), repeat=k):
                        for z in itertools.product((5.0, None), repeat=k):
                            if any(s is None for s in x + z):
                                yield dict(fn="climatology_test", cfg=cfg, x=list(x), z=list(z), secs=CSECS[:k], how="list")
        run_cases(acc, gen(), check_case)
    elif kind == "dens":
        _, ci, n = task
        cfg = G.SPECS["density_inversion_test"]["cfgs"][ci]

        def gen():
            for k in range(1, n + 1):
                for x in itertools.product((1.0, 0.0, NAN), repeat=k):
                    for zm in itertools.product((True, False), repeat=k):
                        z = [float(10 + j) if p else NAN for j, p in enumerate(zm)]
                        yield dict(fn="density_inversion_test", cfg=cfg, x=list(x), z=z, how="nd")
                        if k <= 3:
                            xl = [None if s == NAN else s for s in x]
                            zl = [None if s == NAN else s for s in z]
                            if None in xl or None in zl:
                                yield dict(fn="density_inversion_test", cfg=cfg, x=xl, z=zl, how="list")
            bx = list(alpha.xl((1.0, 0.0, NAN, 0.5), 3000, 4))
            bz = [float(10 + j) if p else NAN for j, p in enumerate(alpha.xl((True, True, False, True, True), 3000, 3))]
            yield dict(fn="density_inversion_test", cfg=cfg, x=bx, z=bz, how="nd")
            yield dict(fn="density_inversion_test", cfg=cfg, x=bx, z=bz, how="nd", pre=dict(x=bx[5:] + bx[:5], z=bz[9:] + bz[:9]), refill=True)
        run_cases(acc, gen(), check_case)
    elif kind == "pos":
        _, name, ci, n = task
        cfg = G.SPECS[name]["cfgs"][ci]
        patterns = (((0.0, 0.0), (1.0, 1.0)), ((20.0, 60.0), (-20.0, -60.0)))  # inside / outside the small box, tiny / huge hops

        def gen():
            for k in range(0, n + 1):
                for pres in itertools.product(((True, True), (True, False), (False, True), (False, False)), repeat=k):
                    for pat in patterns:
                        for how, marker in (("nd", NAN), ("list", None)):
                            if how == "list" and k > 3:
                                continue
                            lon = [pat[j % 2][0] if p[0] else marker for j, p in enumerate(pres)]
                            lat = [pat[j % 2][1] if p[1] else marker for j, p in enumerate(pres)]
                            yield dict(fn=name, cfg=cfg, lon=lon, lat=lat, secs=alpha.regular_secs(k, 3600), how=how)
                            if name == "speed_test" and k >= 2 and how == "nd":
                                rep = [alpha.T0 + 3600 * (j - (1 if j >= 2 else 0)) for j in range(k)]  # a repeated timestamp
                                yield dict(fn=name, cfg=cfg, lon=lon, lat=lat, secs=rep, how=how)
            pres = list(alpha.xl(((True, True), (True, True), (True, False), (False, True), (False, False)), 2500, 3))
            for pat in patterns:
                lon = [pat[j % 2][0] if p[0] else NAN for j, p in enumerate(pres)]
                lat = [pat[j % 2][1] if p[1] else NAN for j, p in enumerate(pres)]
                yield dict(fn=name, cfg=cfg, lon=lon, lat=lat, secs=alpha.regular_secs(len(pres), 3600), how="nd")
                yield dict(fn=name, cfg=cfg, lon=lon, lat=lat, secs=alpha.regular_secs(len(pres), 3600), how="nd",
                           pre=dict(lon=lon[3:] + lon[:3], lat=lat[4:] + lat[:4]), refill=True)
        run_cases(acc, gen(), check_case)
