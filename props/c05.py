"""C05 - running a config through any stream front end equals calling each test on its window rows."""
from __future__ import annotations

import itertools

import numpy as np

from mc import alpha

from . import streams_common as S
from .common import V, run_cases

PROP = "C05"
BUDGET = {"quick": 900, "thorough": 3400}
NS = {"quick": (1, 2, 3, 4), "thorough": (0, 1, 2, 3, 4, 5, 6, 7)}

META = dict(
    rule="configs-as-programs x tables x front ends: tables of n rows (daily timestamps in increasing and in shuffled, non-monotonic order; columns v,w and "
         "optional z / lat+lon); one-context programs with EVERY window (starting,ending) over {None} + {t0-1d, every row time, "
         "every row time+12h, last+1d} (closed, half-open, empty, inverted, rows exactly on starting and on ending), "
         "streams {v} and {v,w}, test sets {probe}, {spike, rate_of_change}, {probe, depth-banded climatology, location}; "
         "two-context programs over every ordered pair of windows from a coarse grid; three-context programs A,B,A (the "
         "same window in two non-adjacent places); tables with a missing (NaT) time and with repeated timestamps; a test configured on the depth column itself; a few programs on a 40-row (thorough 150-row) table in increasing and shuffled order; one Config object run "
         "first on data lacking a configured stream and then on complete data; window bounds as ISO strings and "
         "datetime objects; front ends: PandasStream (RangeIndex / shifted ints / DatetimeIndex / repeated labels), NumpyStream (ndarray / "
         "dict), XarrayStream (time as dimension coordinate / as data variable / from a NetCDF-3 file path), NetcdfStream (in-memory Dataset / file path), QcConfig.run; Pandas/Xarray/Netcdf streams also with custom axis column names. Oracle per "
         "configured (context, stream, test): exactly one result whose subset mask equals starting<=t<ending and whose "
         "flags equal the real test function called directly on those rows with the context's parameters (the probe "
         "additionally checks the inp/tinp/zinp/lat/lon it received). Scale: 1500-row (thorough 2600) tables through every front end, in increasing and shuffled order; and an earlier run of the same configuration on another table of the same size in the same process. non-trivial = the window excludes at least one row "
         "or the program has two contexts",
    bounds={"quick": {"rows": "1..4", "contexts": 2}, "thorough": {"rows": "0..7", "contexts": "2 (+ A,B,A)"}},
    not_judged=["region subsetting (documented as not implemented)", "tz-aware window strings against naive data",
                "tests whose direct call raises on the window rows (C18 covers dropping out)"],
    assumptions=["C15: the carrier a stream hands to the test (Series/Index/ndarray) does not change the flags"],
)

TESTSETS = {
    # parameters whose configured value is 0 / 0.0 / False (and differs from the function's default)
    "zeros": (dict(qartod=dict(vprobe_test=dict(code=0), spike_test=dict(suspect_threshold=0, fail_threshold=5),
                               density_inversion_test=dict(suspect_threshold=0.0, fail_threshold=-1)),
                   axds=dict(valid_range_test=dict(valid_span=[2, 6], start_inclusive=False, end_inclusive=True))), dict(z=True, ll=False)),
    "probe": (dict(qartod=dict(vprobe_test=dict(code=3))), dict(z=False, ll=False)),
    "probe_z": (dict(qartod=dict(vprobe_test=dict(code=4))), dict(z=True, ll=False)),
    "neigh": (dict(qartod=dict(spike_test=dict(suspect_threshold=1, fail_threshold=5),
                               rate_of_change_test=dict(threshold=3.0 / S.DAY))), dict(z=False, ll=True)),
    "aux": (dict(qartod=dict(vprobe_test=dict(code=1),
                             climatology_test=dict(config=[dict(tspan=[1, 12], period="month", vspan=[2, 6], fspan=[0, 8.5], zspan=[0, 12])]),
                             location_test=dict(bbox=[-10, -10, 30, 10], range_max=500_000)),
                 argo=dict(speed_test=dict(suspect_threshold=1.0, fail_threshold=50.0))), dict(z=True, ll=True)),
}


def expected_items(tab, contexts):
    """-> list of dict(stream, module, test, kwargs, mask) in config order."""
    items = []
    for c in contexts:
        mask = S.ref_mask(tab["time"], c.get("start"), c.get("end"))
        for sid, mods in c["streams"].items():
            for mod, tests in mods.items():
                for test, kw in tests.items():
                    items.append(dict(stream=sid, module=mod, test=test, kwargs=kw, mask=mask,
                                      wk=S.window_kind(tab["time"], c.get("start"), c.get("end")), start=c.get("start"), end=c.get("end")))
    return items


def merge_same_window(items):
    # contexts with equal windows are one Context: nothing to merge for the oracle, every (context, stream, test) is still run once
    return items


def reference_flags(tab, it, stream_col):
    rows = [i for i, m in enumerate(it["mask"]) if m]
    fn, kw, avail = S.direct_call(it["module"], it["test"], it["kwargs"], tab, rows)
    kw["inp"] = np.array([tab[stream_col][i] for i in rows], dtype="float64")
    if tab.get("masked_rows"):
        # the front end was fed masked arrays: the direct call gets the same rows, masked the same way
        kw["inp"] = np.ma.MaskedArray(kw["inp"], mask=[i in tab["masked_rows"] for i in rows])
    kw.update(avail)
    kw = S.filter_sig(fn, kw)
    S.PROBE_LOG.clear()
    out = alpha.call(fn, **kw)
    probe = S.PROBE_LOG[-1] if S.PROBE_LOG else None
    if isinstance(out, alpha.Raised):
        return out, None
    vals, _, _ = alpha.flags_of(out)
    return vals, probe


def mask_symptom(obs_mask, it, times):
    exp = it["mask"]
    if len(obs_mask) != len(exp):
        return "mask-length"
    if all(obs_mask) and not all(exp):
        return "window-ignored"
    extra = [i for i, (o, e) in enumerate(zip(obs_mask, exp)) if o and not e]
    lost = [i for i, (o, e) in enumerate(zip(obs_mask, exp)) if e and not o]
    if extra and not lost and it["end"] is not None and all(times[i] == it["end"] for i in extra):
        return "row-at-ending-included"
    if lost and not extra and it["start"] is not None and all(times[i] == it["start"] for i in lost):
        return "row-at-starting-excluded"
    if extra and not lost:
        return "extra-rows"
    if lost and not extra:
        return "lost-rows"
    return "wrong-rows"


def check_case(case):
    S.install_probes()
    if case.get("reuse"):
        return check_reuse(case)
    tab = S.table(case["n"], case["z"], case["ll"], case.get("shuffled", False), case.get("nat", False), case.get("duptime", False))
    fe = case["fe"]
    if fe.endswith(":ma"):
        tab["masked_rows"] = [1]
    contexts = case["contexts"]
    cfgd = S.make_config(contexts, case.get("style", "str"))
    items = expected_items(tab, contexts)
    kind = fe.split(":")[0]
    layout = fe
    nt = len(contexts) > 1 or any(not all(it["mask"]) for it in items)
    # for ndarray-input front ends every stream id maps to the single input array
    colof = (lambda sid: "v") if fe in ("numpy:nd", "qcconfig", "qcconfig:ma") else (lambda sid: sid)
    wk = "+".join(sorted({it["wk"] for it in items}))
    vs = []

    if fe.startswith("qcconfig"):
        return check_qcconfig(case, tab, cfgd, items, nt, wk)

    if case.get("pre") is not None:
        # an earlier run of the same front end class and configuration, in the same process, on ANOTHER table of the
        # same size (other time axis): nothing of it may survive into the judged run
        pre_tab = S.table(case["n"], case["z"], case["ll"], case["pre"].get("shuffled", False), False, case["pre"].get("duptime", False))
        alpha.call(S.run_frontend, fe, pre_tab, S.make_config(contexts, case.get("style", "str")))
    S.PROBE_LOG.clear()
    res = alpha.call(S.run_frontend, fe, tab, cfgd)
    probes = list(S.PROBE_LOG)
    if case.get("collect_first") and not isinstance(res, alpha.Raised):
        # the caller keeps the yielded results, collects them (both forms) and only then reads the per-context flags
        from ioos_qc.results import collect_results

        alpha.call(collect_results, list(res), how="dict")
        alpha.call(collect_results, list(res), how="list")
    if isinstance(res, alpha.Raised):
        return [V(f"{PROP}|{layout}|window={wk}|symptom=raises:{res.name}", f"{fe} raised {res.name}: {res.msg}", None, repr(res))], nt, ("exc", res.name), 0
    # flatten yields -> (stream, test) -> list of (mask, flags)
    got = []
    for r in res:
        try:
            m = [bool(b) for b in np.asarray(r.subset_indexes).reshape(-1).tolist()]
        except Exception:  # noqa: BLE001
            m = None
        for cr in r.results:
            fl, _, _ = alpha.flags_of(cr.results)
            got.append(dict(stream=r.stream_id, module=cr.package, test=cr.test, mask=m, flags=fl, used=False,
                            data=np.asarray(r.data).tolist() if r.data is not None else None))
    probe_i = 0
    obs_summary = []
    for it in items:
        exp_flags, exp_probe = reference_flags(tab, it, colof(it["stream"]))
        cands = [g for g in got if not g["used"] and g["stream"] == it["stream"] and g["test"] == it["test"] and g["module"] == it["module"]]
        if isinstance(exp_flags, alpha.Raised):
            for g in cands[:1]:
                g["used"] = True
            continue  # direct call raises on these rows: not judged here
        sig0 = f"{PROP}|{layout}|window={it['wk']}|test={it['test']}"
        match = next((g for g in cands if g["mask"] == it["mask"] and g["flags"] == exp_flags), None)
        if match is not None:
            match["used"] = True
            obs_summary.append((it["test"], tuple(exp_flags)))
            continue
        if not cands:
            vs.append(V(f"{sig0}|symptom=missing-result", f"{fe}: no result for ({it['stream']}, {it['test']}) in window {it['start']}..{it['end']}",
                        dict(mask=it["mask"], flags=exp_flags), None))
            continue
        # diagnose with the closest candidate
        g = next((g for g in cands if g["mask"] == it["mask"]), cands[0])
        g["used"] = True
        if g["mask"] != it["mask"]:
            sym = mask_symptom(g["mask"] or [], it, tab["time"])
            vs.append(V(f"{PROP}|{layout}|window={it['wk']}|symptom=mask:{sym}", f"{fe}: ({it['stream']}, {it['test']}) ran on rows {g['mask']}, window {it['start']}..{it['end']} selects {it['mask']}",
                        dict(mask=it["mask"], flags=exp_flags), dict(mask=g["mask"], flags=g["flags"])))
        else:
            vs.append(V(f"{sig0}|symptom=flags-differ-from-direct-call", f"{fe}: ({it['stream']}, {it['test']}) flags differ from the direct call on the window rows",
                        dict(mask=it["mask"], flags=exp_flags), dict(mask=g["mask"], flags=g["flags"])))
    for g in got:
        if not g["used"]:
            vs.append(V(f"{PROP}|{layout}|window={wk}|test={g['test']}|symptom=extra-result", f"{fe}: unexpected extra result for ({g['stream']}, {g['test']})", None, dict(mask=g["mask"], flags=g["flags"])))
    # what the probe saw inside the stream run must be a window's rows of the source columns
    if not vs:
        exp_probe_args = []
        for it in items:
            if it["test"] != "vprobe_test":
                continue
            rows = [i for i, m in enumerate(it["mask"]) if m]
            e = dict(code=it["kwargs"]["code"], inp=[tab[colof(it["stream"])][i] for i in rows], tinp=[tab["time"][i] for i in rows],
                     zinp=[tab["z"][i] for i in rows] if "z" in tab else None,
                     lat=[tab["lat"][i] for i in rows] if "lat" in tab else None, lon=[tab["lon"][i] for i in rows] if "lon" in tab else None)
            exp_probe_args.append(e)
        pool = list(probes)
        for e in exp_probe_args:
            if e in pool:
                pool.remove(e)
            else:
                near = next((p for p in pool if p["code"] == e["code"] and p["inp"] == e["inp"]), None)
                wrong = "inp" if near is None else next((k for k in ("tinp", "zinp", "lat", "lon") if near[k] != e[k]), "?")
                vs.append(V(f"{PROP}|{layout}|window={wk}|test=vprobe_test|symptom=probe-received-wrong:{wrong}",
                            f"{fe}: the test function did not receive the window rows of {wrong}", e, near if near is not None else pool[:2]))
                break
    return vs, nt, tuple(obs_summary), 0


def check_qcconfig(case, tab, cfgd, items, nt, wk):
    import warnings

    from ioos_qc.config import QcConfig

    vs = []
    kw = dict(inp=list(tab["v"]), tinp=S.dt64n(tab["time"]))
    if tab.get("masked_rows"):
        kw["inp"] = np.ma.MaskedArray(np.array(tab["v"], dtype="float64"), mask=[i in tab["masked_rows"] for i in range(tab["n"])])
    if "z" in tab:
        kw["zinp"] = list(tab["z"])
    if "lat" in tab:
        kw["lat"], kw["lon"] = list(tab["lat"]), list(tab["lon"])

    def go():
        with warnings.catch_warnings():
            warnings.simplefilter("ignore")
            return QcConfig(cfgd).run(**kw)

    res = alpha.call(go)
    if isinstance(res, alpha.Raised):
        return [V(f"{PROP}|qcconfig|window={wk}|symptom=raises:{res.name}", f"QcConfig.run raised {res.name}: {res.msg}", None, repr(res))], nt, ("exc", res.name), 0
    obs = []
    for it in items:
        exp_flags, _ = reference_flags(tab, it, "v")
        if isinstance(exp_flags, alpha.Raised):
            continue
        # dict form: UNKNOWN outside the window
        exp_full = [2] * tab["n"]
        k = 0
        for i, m in enumerate(it["mask"]):
            if m:
                exp_full[i] = exp_flags[k]
                k += 1
        try:
            got = res[it["module"]][it["test"]]
            gl, _, _ = alpha.flags_of(got)
        except Exception as e:  # noqa: BLE001
            vs.append(V(f"{PROP}|qcconfig|window={it['wk']}|test={it['test']}|symptom=missing-result", f"QcConfig.run has no result for {it['test']}", exp_full, repr(e)))
            continue
        obs.append(tuple(gl or ()))
        if gl != exp_full:
            vs.append(V(f"{PROP}|qcconfig|window={it['wk']}|test={it['test']}|symptom=flags-differ-from-direct-call",
                        f"QcConfig.run: {it['test']} flags differ from the direct call on the window rows (UNKNOWN outside)", exp_full, gl))
    return vs, nt, tuple(obs), 0


def replay(case):
    return check_case(case)[0]


def one_context_programs(n, streams_opts=(("v",), ("v", "w"))):
    grid = [None] + S.window_grid(n)
    for ts_name, (mods, need) in TESTSETS.items():
        for sids in streams_opts:
            for k, (s, e) in enumerate(itertools.product(grid, repeat=2)):
                ctx = dict(start=s, end=e, streams={sid: mods for sid in sids})
                yield ts_name, need, [ctx], ("datetime" if k % 2 else "str")


def two_context_programs(n):
    last = S.T0 + max(n - 1, 0) * S.DAY
    coarse = [None, S.T0, S.T0 + 2 * S.DAY, last + S.DAY]
    wins = list(itertools.product(coarse, repeat=2))
    for ts_name in ("probe", "neigh"):
        mods, need = TESTSETS[ts_name]
        for a in wins:
            for b in wins:
                m2 = mods
                if ts_name == "probe":
                    m2 = dict(qartod=dict(vprobe_test=dict(code=4)))
                ctxs = [dict(start=a[0], end=a[1], streams={"v": mods}), dict(start=b[0], end=b[1], streams={"v": m2, "w": m2})]
                yield ts_name, need, ctxs, "str"


def three_context_programs(n):
    """A, B, A: the same window listed in two non-adjacent places"""
    last = S.T0 + max(n - 1, 0) * S.DAY
    wins = [(None, None), (S.T0, S.T0 + 2 * S.DAY), (S.T0 + 2 * S.DAY, None), (None, last)]
    m1 = dict(qartod=dict(vprobe_test=dict(code=3)))
    m2 = dict(qartod=dict(spike_test=dict(suspect_threshold=1, fail_threshold=5)))
    m3 = dict(qartod=dict(gross_range_test=dict(fail_span=[0, 8], suspect_span=[0, 4])))
    for a in wins:
        for b in wins:
            if a == b:
                continue
            ctxs = [dict(start=a[0], end=a[1], streams={"v": m1}), dict(start=b[0], end=b[1], streams={"v": m2}),
                    dict(start=a[0], end=a[1], streams={"v": m3})]
            yield "probe", dict(z=False, ll=False), ctxs, "str"


def axis_stream_programs(n):
    """a test configured on the depth column itself, next to a depth-dependent test on another stream"""
    mz = dict(qartod=dict(gross_range_test=dict(fail_span=[0, 12], suspect_span=[0, 6]), spike_test=dict(suspect_threshold=1, fail_threshold=50)))
    mv = dict(qartod=dict(climatology_test=dict(config=[dict(tspan=[1, 12], period="month", vspan=[2, 6], fspan=[0, 8.5], zspan=[0, 12])])))
    for s, e in ((None, None), (S.T0 + S.DAY, None), (S.T0, S.T0 + 2 * S.DAY)):
        yield "axis", dict(z=True, ll=False), [dict(start=s, end=e, streams={"z": mz, "v": mv})], "str"
        yield "axis", dict(z=True, ll=False), [dict(start=s, end=e, streams={"v": mv, "z": mz})], "str"


def subsec_programs(n):
    """window bounds that are not whole seconds, on a table sampled at whole seconds (1 s steps would need another table:
    here rows sit on whole days, the bounds half a second before / after a row time)"""
    mods, need = TESTSETS["probe"]
    m2 = dict(qartod=dict(spike_test=dict(suspect_threshold=1, fail_threshold=5)))
    ts = [S.T0 + i * S.DAY for i in range(n)]
    grid = [None] + [t + d for t in ts for d in (-0.5, 0.5, 0.999)]
    for s_ in grid:
        for e_ in grid:
            yield "probe", need, [dict(start=s_, end=e_, streams={"v": mods, "w": m2})], "str"


def big_programs(n):
    """a few programs on a table of n rows (size-dependent code paths)"""
    t = lambda i: S.T0 + i * S.DAY
    wins = [(None, None), (t(5), t(n - 10)), (t(n // 4), None), (None, t(n // 2) + S.DAY // 2), (t(n), None)]
    for ts_name in ("probe_z", "neigh", "aux"):
        mods, need = TESTSETS[ts_name]
        for s, e in wins:
            yield ts_name, need, [dict(start=s, end=e, streams={"v": mods, "w": mods})], "str"
        yield ts_name, need, [dict(start=None, end=t(n // 2), streams={"v": mods}), dict(start=t(n // 2), end=None, streams={"v": mods, "w": mods})], "datetime"


def tasks(tier):
    ts = [("reuse", 4, fe) for fe in ("pandas:range", "numpy:dict", "xarray:coord", "netcdf")]
    for fe in S.FRONTENDS:
        ts.append(("big", 40 if tier == "quick" else 150, fe))
        ts.append(("big", 1500 if tier == "quick" else 2600, fe))
    for fe in ("pandas:names", "xarray:names", "netcdf:names", "xarray:axcoords", "numpy:ma", "qcconfig:ma"):
        ts.append(("one", 4, fe))
    for fe in ("pandas:secunit", "pandas:range", "numpy:dict", "xarray:coord", "netcdf"):
        ts.append(("subsec", 3, fe))
    ts.append(("one", 4, "pandas:secunit"))
    for fe in ("xarray:axcoords", "numpy:ma"):
        ts.append(("two", 4, fe))
        ts.append(("big", 40, fe))
    for fe in ("xarray:file", "netcdf:file"):
        ts.append(("one", 3, fe))
        ts.append(("two", 4, fe))
    for fe in S.FRONTENDS:
        if fe.startswith(("pandas", "xarray", "netcdf")):
            ts.append(("axis", 4, fe))
        if not fe.startswith("qcconfig"):
            ts.append(("three", 4, fe))
            if tier == "thorough":
                ts.append(("three", 6, fe))
                ts.append(("three", 3, fe))
    for n in NS[tier]:
        for fe in S.FRONTENDS:
            ts.append(("one", n, fe))
    for fe in S.FRONTENDS:
        ts.append(("two", 4, fe))
        if tier == "thorough":
            ts.append(("two", 3, fe))
            ts.append(("two", 6, fe))
    return ts


def check_reuse(case):
    """history: ONE Config object is first run on a table that lacks a configured stream, then on the full table"""
    import pandas as pd

    from ioos_qc.config import Config
    from ioos_qc.streams import PandasStream

    S.install_probes()
    tab = S.table(case["n"], False, False)
    mods = dict(qartod=dict(vprobe_test=dict(code=3), spike_test=dict(suspect_threshold=1, fail_threshold=5)))
    ctxs = [dict(start=case["start"], end=case["end"], streams={"v": mods, "w": mods})]
    cfgd = S.make_config(ctxs)
    items = expected_items(tab, ctxs)
    cfg = alpha.call(Config, cfgd)
    if isinstance(cfg, alpha.Raised):
        return [], False, None, 1
    # first use: a frame without the column w (through the front end named by case["first"])
    times = S.dt64n(tab["time"])
    first = alpha.call(lambda: list(PandasStream(pd.DataFrame({"time": times, "v": tab["v"]})).run(cfg)) if case["first"] == "pandas" else
                       list(__import__("ioos_qc.streams", fromlist=["NumpyStream"]).NumpyStream(inp={"v": np.array(tab["v"])}, time=times).run(cfg)))
    # second use of the SAME Config object on the complete table
    import ioos_qc.streams as st
    import xarray as xr

    fe = case["fe"]
    cols = {k: np.array(tab[k], dtype="float64") for k in ("v", "w")}

    def second():
        if fe.startswith("pandas"):
            return list(st.PandasStream(pd.DataFrame({"time": times, **cols})).run(cfg))
        if fe.startswith("numpy"):
            return list(st.NumpyStream(inp=cols, time=times).run(cfg))
        ds = xr.Dataset({k: ("time", a) for k, a in cols.items()}, coords={"time": times})
        return list((st.NetcdfStream if fe == "netcdf" else st.XarrayStream)(ds).run(cfg))

    res = alpha.call(second)
    vs = []
    if isinstance(res, alpha.Raised):
        return [V(f"{PROP}|config-reuse|{fe}|symptom=raises:{res.name}", f"second run of one Config object raised {res.name}: {res.msg}", None, repr(res))], True, None, 0
    got = {}
    for r in res:
        for cr in r.results:
            got[(r.stream_id, cr.test)] = (alpha.flags_of(cr.results)[0], [bool(b) for b in np.asarray(r.subset_indexes).tolist()])
    for it in items:
        exp_flags, _ = reference_flags(tab, it, it["stream"])
        if isinstance(exp_flags, alpha.Raised):
            continue
        g = got.get((it["stream"], it["test"]))
        if g is None:
            vs.append(V(f"{PROP}|config-reuse|{fe}|first={case['first']}|symptom=missing-result", f"a Config object used before on data lacking stream w yields no result for ({it['stream']}, {it['test']}) on complete data", exp_flags, None))
        elif g[0] != exp_flags or g[1] != it["mask"]:
            vs.append(V(f"{PROP}|config-reuse|{fe}|first={case['first']}|symptom=wrong-result", f"reused Config gives different flags/rows for ({it['stream']}, {it['test']})", dict(flags=exp_flags, mask=it["mask"]), dict(flags=g[0], mask=g[1])))
    return vs, True, tuple(sorted((k, tuple(v[0] or ())) for k, v in got.items())), 0


def run_task(task, acc):
    kind, n, fe = task
    S.install_probes()
    if kind == "reuse":
        def gen2():
            for first in ("pandas", "numpy"):
                for s_, e_ in ((None, None), (S.T0 + S.DAY, None), (S.T0, S.T0 + 2 * S.DAY)):
                    yield dict(reuse=True, n=n, fe=fe, first=first, start=s_, end=e_)
        run_cases(acc, gen2(), check_case)
        return

    def usable(ctxs):
        if fe in ("numpy:nd", "qcconfig", "qcconfig:ma"):
            return all(set(c["streams"]) == {"v"} for c in ctxs)
        return True

    def gen():
        progs = {"one": one_context_programs, "two": two_context_programs, "three": three_context_programs, "axis": axis_stream_programs,
                 "big": big_programs, "subsec": subsec_programs}[kind](n)
        for ts_name, need, ctxs, style in progs:
            if not usable(ctxs):
                continue
            if fe.startswith("qcconfig"):
                # QcConfig.run returns the default stream only: rename stream v -> _stream
                ctxs = [dict(c, streams={"_stream": c["streams"]["v"]}) for c in ctxs]
                if len(ctxs) > 1:
                    continue
            yield dict(n=n, z=need["z"], ll=need["ll"], fe=fe, contexts=ctxs, style=style, testset=ts_name)
            if kind in ("two", "three") and n == 4 and not fe.startswith("qcconfig"):
                yield dict(n=n, z=need["z"], ll=need["ll"], fe=fe, contexts=ctxs, style=style, testset=ts_name, collect_first=True)
            if kind == "big":
                yield dict(n=n, z=need["z"], ll=need["ll"], fe=fe, contexts=ctxs, style=style, testset=ts_name, shuffled=True)
                if not fe.startswith("qcconfig"):
                    yield dict(n=n, z=need["z"], ll=need["ll"], fe=fe, contexts=ctxs, style=style, testset=ts_name, shuffled=True, pre=dict())
                    yield dict(n=n, z=need["z"], ll=need["ll"], fe=fe, contexts=ctxs, style=style, testset=ts_name, pre=dict(shuffled=True))
                continue
            if n >= 3 and ts_name == "probe" and not fe.startswith("qcconfig"):
                yield dict(n=n, z=need["z"], ll=need["ll"], fe=fe, contexts=ctxs, style=style, testset=ts_name, shuffled=True, pre=dict())
                yield dict(n=n, z=need["z"], ll=need["ll"], fe=fe, contexts=ctxs, style=style, testset=ts_name, pre=dict(shuffled=True))
            if n >= 2 and ts_name == "probe" and fe != "xarray:coord":
                # a row whose time is missing (NaT) satisfies no window bound
                yield dict(n=n, z=need["z"], ll=need["ll"], fe=fe, contexts=ctxs, style=style, testset=ts_name, nat=True)
            if n >= 2 and ts_name in ("probe", "neigh"):
                # repeated timestamps (in increasing and in shuffled order)
                yield dict(n=n, z=need["z"], ll=need["ll"], fe=fe, contexts=ctxs, style=style, testset=ts_name, duptime=True)
                if n >= 3:
                    yield dict(n=n, z=need["z"], ll=need["ll"], fe=fe, contexts=ctxs, style=style, testset=ts_name, duptime=True, shuffled=True)
            if n >= 3 and ts_name in ("probe_z", "neigh"):
                # the same program on a table whose time column is not monotonic
                yield dict(n=n, z=need["z"], ll=need["ll"], fe=fe, contexts=ctxs, style=style, testset=ts_name, shuffled=True)
    run_cases(acc, gen(), check_case)
