"""C04 - aggregation (qartod_compare / aggregate / PandasStore.compute_aggregate) = worst evaluated flag.

Event graph: a state is the history (sequence) of flag vectors folded so far; its canonical
form is the multiset of vectors.  Every sequence up to the bound is executed on the real code
and compared with the order-free reference, which decides commutativity and idempotence
(all orders / duplications of a multiset are distinct states that must observe the same value);
associativity is checked on every edge by re-folding every split.
"""
from __future__ import annotations

import itertools

import numpy as np

from mc import alpha
from refmodel import qc as R

from .common import V, run_cases

PROP = "C04"
SYMS = (1, 2, 3, 4, 9, 0, 7, "m4", "m1")
RED = (1, 2, 3, 4, 9, "m4")
MID = (1, 2, 3, 4, 9, 7, "m4")
WIDE = (1, 2, 3, 4, 9, 260, 265, 3.5, 4.9, -252, "m4")
BUDGET = {"quick": 600, "thorough": 3400}

META = dict(
    rule="event graph over histories of flag vectors: every sequence of k<=3 vectors of length 1 and k<=2 vectors of length 2 over the 9-symbol "
         "entry alphabet (k=3, L=2 over the 7-symbol sub-alphabet {1,2,3,4,9,7,masked-over-4}; thorough: full alphabet) "
         "- alphabet {1,2,3,4,9, non-flags 0 and 7, masked-over-4, masked-over-1} through qartod_compare (masked "
         "uint8, plain ndarray, float carriers), every split re-folded (associativity), and through aggregate() of "
         "CollectedResults; pairs of vectors over wide-dtype carriers holding non-flag values that alias flags when narrowed "
         "(260, 265, 3.5, 4.9, -252); every two- and three-call SEQUENCE of roll-ups of equal length (state between calls); every sequence of k<=3 vectors (L=2) over {1,2,3,4,9,masked} through "
         "PandasStore(...).compute_aggregate()/save() [thorough: L<=3,k<=3 and L<=2,k<=4 over the 6-symbol "
         "alphabet]. states = histories executed; canonical states (multisets) are counted; the per-position "
         "reference (max precedence over unmasked flag entries, MISSING if none) is order-free, so equality on every "
         "history is confluence. Scale: 5000-entry vectors (k<=5), a single non-GOOD entry at block-edge positions (0, 511, 1023, 1024, 2047, 2048, 4095, 4096, 4999), 6-33 vectors with the only non-GOOD entries in the j-th (every j), stores of 9/13/33 streams. non-trivial = at least two different entries compete at some position",
    bounds={"quick": {"L": 2, "k": "3 (L=1: 9 symbols; L=2: 7 symbols), 2 (L=2: 9 symbols)"}, "thorough": {"L": "2 (9 symbols, k<=3); 3 (6 symbols, k<=3); 2 (6 symbols, k=4)"}},
    not_judged=["vectors of unequal length (rejected by assertion)"],
    assumptions=[],
)


def ref_vec(v):
    return [None if isinstance(e, str) else e for e in v]


def mk(v, carrier):
    if carrier in ("f8w", "i8w"):  # wide carriers holding non-flag values that alias flags when narrowed to uint8
        data = [int(e[1:]) if isinstance(e, str) else e for e in v]
        mask = [isinstance(e, str) for e in v]
        arr = np.array(data, dtype="float64" if carrier == "f8w" else "int64")
        return np.ma.MaskedArray(arr, mask=mask) if any(mask) else arr
    data = [int(e[1:]) if isinstance(e, str) else e for e in v]
    mask = [isinstance(e, str) for e in v]
    if carrier == "f8nan":  # float vector as it comes back from a DataFrame: NaN where the row was not evaluated
        return np.array([np.nan if m else float(d) for d, m in zip(data, mask)], dtype="float64")
    if carrier == "ma":
        return np.ma.MaskedArray(np.array(data, dtype="uint8"), mask=mask)
    if carrier == "ma_nomask" and not any(mask):
        return np.ma.MaskedArray(np.array(data, dtype="uint8"))
    if carrier == "nd" and not any(mask):
        return np.array(data, dtype="uint8")
    if carrier == "f8" and not any(mask):
        return np.array(data, dtype="float64")
    if carrier == "i8" and not any(mask):
        return np.array(data, dtype="int64")
    return np.ma.MaskedArray(np.array(data, dtype="uint8"), mask=mask)


def observe(out, n):
    """-> (list of ints or None, problem string or None)"""
    if isinstance(out, alpha.Raised):
        return None, repr(out)
    vals, shape, problems = alpha.flags_of(out)
    if vals is None:
        return None, problems[0]
    if len(vals) != n:
        return vals, "length"
    if any(v is None for v in vals):
        return vals, "masked-result"
    return vals, None


def among(vectors, i):
    return "+".join(sorted({str(v[i]) for v in vectors}))


def judge(entry, vectors, out, extra=""):
    n = len(vectors[0])
    exp = R.aggregate([ref_vec(v) for v in vectors])
    vals, problem = observe(out, n)
    vs = []
    if problem:
        vs.append(V(f"{PROP}|{entry}|{extra}|symptom={problem}", f"{entry}: {problem}", exp, vals if vals is not None else problem))
        return vs, ("p", problem)
    for i in range(n):
        if vals[i] != exp[i]:
            vs.append(V(f"{PROP}|{entry}|{extra}|expected={exp[i]}|observed={vals[i]}|among={among(vectors, i)}",
                        f"{entry}: position {i} aggregates to {vals[i]}, worst evaluated flag is {exp[i]}", exp, vals))
            break
    return vs, tuple(vals)


def store_run(vectors, rot=0):
    """Fold the vectors through PandasStore: one (stream, test) result per vector."""
    from ioos_qc import qartod
    from ioos_qc.results import CallResult, ContextResult
    from ioos_qc.stores import PandasStore

    from ioos_qc import argo, axds

    n = len(vectors[0])
    crs = []
    # every vector is the result of a different test function (the roll-up covers all of them, whatever their metadata)
    fns = [("qartod", qartod.gross_range_test), ("qartod", qartod.density_inversion_test), ("argo", argo.pressure_increasing_test),
           ("qartod", qartod.flat_line_test), ("axds", axds.valid_range_test), ("argo", argo.speed_test), ("qartod", qartod.spike_test),
           ("qartod", qartod.climatology_test), ("qartod", qartod.location_test), ("qartod", qartod.attenuated_signal_test), ("qartod", qartod.rate_of_change_test)]
    for j, v in enumerate(vectors):
        pkg, f = fns[(j + rot) % len(fns)]
        crs.append(ContextResult(
            stream_id=f"s{j}",
            results=[CallResult(package=pkg, test=f.__name__, function=f, results=mk(v, "ma"))],
            subset_indexes=np.ones(n, dtype=bool),
            data=np.arange(n, dtype="float64"),
            tinp=alpha.dt64(alpha.regular_secs(n)),
            zinp=np.zeros(n), lat=np.zeros(n), lon=np.zeros(n),
        ))
    store = PandasStore(crs)
    store.compute_aggregate()
    agg = store.collected_results[-1].results
    df = store.save(write_data=False, write_axes=False)
    col = df["qartod_rollup"].to_numpy() if "qartod_rollup" in df else None
    return agg, col, list(df.columns)


def check_sequence(case):
    """several roll-ups in one process: each must be judged on its own inputs only"""
    import importlib

    from ioos_qc import qartod

    importlib.reload(importlib.import_module("ioos_qc.utils"))
    qartod = importlib.reload(qartod)  # every history starts from the initial module state
    vs = []
    obs = []
    for step, vectors in enumerate(case["calls"]):
        out = alpha.call(qartod.qartod_compare, [mk(v, "ma") for v in vectors])
        v2, o = judge("qartod_compare", vectors, out, extra=f"call#{min(step, 1) + 1}-of-a-sequence")
        obs.append(o)
        vs.extend(v2)
        if vs:
            break
    return vs, True, tuple(obs), 0, len(case["calls"])


def check_case(case):
    from ioos_qc import qartod
    from ioos_qc.results import CollectedResult

    if "calls" in case:
        return check_sequence(case)
    vectors = case["vectors"]
    entry = case["entry"]
    n = len(vectors[0])
    nt = any(len({str(v[i]) for v in vectors}) > 1 for i in range(n))
    nexec = 1
    if entry == "qartod_compare":
        carrier = case.get("carrier", "ma")
        arrs = [mk(v, carrier) for v in vectors]
        snap = [(np.ma.getdata(a).copy(), np.ma.getmaskarray(a).copy()) for a in arrs]
        out = alpha.call(qartod.qartod_compare, arrs)
        vs, obs = judge(entry, vectors, out, extra=f"carrier={carrier}")
        # (whether the inputs are left untouched is not part of C04; a roll-up that damaged its inputs shows up in the
        #  re-fold below, which reuses the same logical vectors)
        # associativity on every split of the history
        if not vs and len(vectors) >= 2 and carrier == "ma":
            for j in range(1, len(vectors)):
                left = alpha.call(qartod.qartod_compare, [mk(v, carrier) for v in vectors[:j]])
                nexec += 1
                if isinstance(left, alpha.Raised):
                    continue
                re = alpha.call(qartod.qartod_compare, [left] + [mk(v, carrier) for v in vectors[j:]])
                nexec += 1
                v2, o2 = judge(entry, vectors, re, extra=f"regrouped@{j}")
                vs.extend(v2)
        return vs, nt, obs, 0, nexec
    if entry == "aggregate":
        crs = [CollectedResult(stream_id=f"s{j}", package="qartod", test="t", function=None, results=mk(v, "ma")) for j, v in enumerate(vectors)]
        out = alpha.call(qartod.aggregate, crs)
        vs, obs = judge(entry, vectors, out)
        return vs, nt, obs, 0, 1
    if entry == "store":
        res = alpha.call(store_run, vectors, case.get("rot", 0))
        if isinstance(res, alpha.Raised):
            return [V(f"{PROP}|store|symptom={res!r}", f"PandasStore roll-up raised {res.name}: {res.msg}", None, repr(res))], nt, ("exc",), 0, 1
        agg, col, cols = res
        vs, obs = judge("PandasStore.compute_aggregate", vectors, agg)
        if col is None:
            vs.append(V(f"{PROP}|store|symptom=no-rollup-column", "save() has no qartod_rollup column", None, cols))
        else:
            v2, _ = judge("PandasStore.save[rollup]", vectors, col)
            vs.extend(v2)
        return vs, nt, obs, 0, 1
    raise KeyError(entry)


def replay(case):
    return check_case(case)[0]


def vecs(alphabet, L):
    return [list(v) for v in itertools.product(alphabet, repeat=L)]


def tasks(tier):
    ts = []
    for i in range(len(SYMS)):
        ts.append(("cmp", "full", 1, 3, i))
    if tier == "quick":
        for i in range(len(SYMS) ** 2):
            ts.append(("cmp", "full", 2, 2, i))
        for i in range(len(MID) ** 2):
            ts.append(("cmp", "mid", 2, 3, i))
    else:
        for i in range(len(SYMS) ** 2):
            ts.append(("cmp", "full", 2, 3, i))
    for i in range(len(RED) ** 2):
        ts.append(("store", 2, 3, i))
    for i in range(len(WIDE)):
        ts.append(("wide", i))
    ts.append(("long",))
    for i in range(len(RED) ** 2):
        ts.append(("seq", i))
    if tier == "thorough":
        for i in range(len(RED) ** 3):
            ts.append(("cmp", "red", 3, 3, i))
        for i in range(len(RED) ** 2):
            ts.append(("cmp", "red", 2, 4, i))
        for i in range(len(RED) ** 3):
            ts.append(("store", 3, 2, i))
    return ts


def run_task(task, acc):
    kind = task[0]
    if kind == "cmp":
        _, which, L, K, i = task
        pool = vecs({"full": SYMS, "red": RED, "mid": MID}[which], L)
        first = pool[i]
        kmin = 3 if which == "mid" else 1  # shorter histories of the sub-alphabet are covered by the full one

        def gen():
            for k in range(kmin, K + 1):
                for rest in itertools.product(pool, repeat=k - 1):
                    vectors = [first, *rest]
                    if vectors == sorted(vectors, key=repr):
                        acc.bump("canonical_states(multisets)")
                    yield dict(entry="qartod_compare", vectors=vectors, carrier="ma")
                    if k <= 2:
                        if all(not isinstance(e, str) or e == "m4" for v in vectors for e in v) and not any(e in (0, 7) for v in vectors for e in v):
                            yield dict(entry="qartod_compare", vectors=vectors, carrier="f8nan")
                        nomask = not any(isinstance(e, str) for v in vectors for e in v)
                        if nomask:
                            for c in ("nd", "f8", "i8", "ma_nomask"):
                                yield dict(entry="qartod_compare", vectors=vectors, carrier=c)
                        yield dict(entry="aggregate", vectors=vectors)
        run_cases(acc, gen(), check_case)
    elif kind == "wide":
        first = WIDE[task[1]]

        def gen():
            for L in (1, 2):
                for rest in itertools.product(WIDE, repeat=2 * L - 1):
                    vals = [first, *rest]
                    vectors = [vals[:L], vals[L:]]
                    ints = all(isinstance(e, str) or float(e) == int(e) for v in vectors for e in v)
                    yield dict(entry="qartod_compare", vectors=vectors, carrier="f8w")
                    if ints:
                        yield dict(entry="qartod_compare", vectors=vectors, carrier="i8w")
        run_cases(acc, gen(), check_case)
    elif kind == "long":
        def gen():
            base = alpha.debruijn(SYMS, 2) * 4   # 328 entries, every ordered pair of symbols adjacent
            shifts = (0, 1, 9, 10, 82)
            vs_ = [base[s:] + base[:s] for s in shifts]
            for k in (1, 2, 3, 5):
                yield dict(entry="qartod_compare", vectors=[list(v) for v in vs_[:k]], carrier="ma")
                yield dict(entry="qartod_compare", vectors=[list(v) for v in reversed(vs_[:k])], carrier="ma")
                yield dict(entry="aggregate", vectors=[list(v) for v in vs_[:k]])
            red = alpha.debruijn(RED, 2) * 6
            yield dict(entry="store", vectors=[list(red), list(red[5:] + red[:5]), list(red[11:] + red[:11])])
            # very long vectors (5000 entries)
            big = alpha.xl(SYMS, 5000, 2)
            bs = [big[s:] + big[:s] for s in (0, 1, 83, 1024, 2047)]
            for k in (1, 2, 3, 5):
                yield dict(entry="qartod_compare", vectors=[list(v) for v in bs[:k]], carrier="ma")
                yield dict(entry="aggregate", vectors=[list(v) for v in reversed(bs[:k])])
            allgood = [1] * 5000
            for worst in (2, 3, 4, 9, "m4"):
                for at in (0, 511, 1023, 1024, 2047, 2048, 4095, 4096, 4999):
                    one = list(allgood)
                    one[at] = worst
                    yield dict(entry="qartod_compare", vectors=[allgood, one], carrier="ma")
                    yield dict(entry="aggregate", vectors=[one, allgood])
            bigred = alpha.xl(RED, 3000, 2)
            yield dict(entry="store", vectors=[list(bigred), list(bigred[7:] + bigred[:7])])
            # many vectors: the only non-GOOD entries sit in the j-th of k vectors
            for k in (6, 8, 9, 12, 13, 16, 17, 33):
                for j in range(k):
                    vectors = [[1, 1, 2, 1] for _ in range(k)]
                    vectors[j] = [4, 3, 2, 9]
                    if j + 1 < k:
                        vectors[(j + 5) % k] = ["m4", 1, 1, 1]
                    yield dict(entry="qartod_compare", vectors=vectors, carrier="ma")
                    yield dict(entry="aggregate", vectors=vectors)
                    if k in (9, 13, 33):
                        yield dict(entry="store", vectors=[[("m4" if e == "m4" else e) for e in v] for v in vectors])
        run_cases(acc, gen(), check_case)
    elif kind == "seq":
        pool = vecs(RED, 2)
        a = pool[task[1]]

        def gen():
            for b in pool:
                yield dict(calls=[[a], [b]])
                yield dict(calls=[[a, b], [b], [a]])
        run_cases(acc, gen(), check_case)
    elif kind == "store":
        _, L, K, i = task
        pool = vecs(RED, L)
        first = pool[i]

        def gen():
            for k in range(1, K + 1):
                for rest in itertools.product(pool, repeat=k - 1):
                    yield dict(entry="store", vectors=[first, *rest])
                    if k == 2:
                        for rot in range(1, 11):
                            yield dict(entry="store", vectors=[first, *rest], rot=rot)
        run_cases(acc, gen(), check_case)
