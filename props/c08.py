"""C08 - climatology_test: last matching member wins; unmatched points are UNKNOWN."""
from __future__ import annotations

import datetime as dt
import itertools

import numpy as np

from mc import alpha
from refmodel import qc as R

from .common import judge_flags, run_cases

PROP = "C08"
BUDGET = {"quick": 900, "thorough": 3000}

# ---- time alphabet: calendar edges (ISO strings, UTC naive) ------------------------------
A1 = ("2019-12-30T00:00:00", "2020-01-02T00:00:00")
A2 = ("2020-02-29T00:00:00", "2020-12-31T12:00:00")
TIMES = [
    "2019-12-28T12:00:00", "2019-12-29T23:59:59", "2019-12-30T00:00:00", "2019-12-31T12:00:00",
    "2020-01-01T00:00:00", "2020-01-02T00:00:00", "2020-01-02T00:00:01", "2020-01-05T12:00:00",
    "2020-01-06T00:00:00", "2020-02-28T12:00:00", "2020-02-28T23:59:59", "2020-02-29T00:00:00",
    "2020-03-01T00:00:00", "2020-03-31T23:59:59", "2020-04-01T00:00:00", "2020-06-30T12:00:00",
    "2020-07-01T12:00:00", "2020-09-30T12:00:00", "2020-10-01T12:00:00", "2020-12-27T12:00:00",
    "2020-12-28T12:00:00", "2020-12-31T12:00:00", "2020-12-31T12:00:01", "2021-01-03T12:00:00",
    "2021-01-04T12:00:00", "2021-12-31T12:00:00", "2018-12-31T12:00:00", "1969-12-31T12:00:00",
    "2020-01-02T00:00:00.400", "2020-12-31T12:00:00.250", "2020-02-28T23:59:59.900",   # fractions of a second after / before an absolute bound
]
XV = (4.0, 5.0, 7.0, 10.0, 12.0, 13.0, 14.0, 15.0, 16.0, 17.0, 18.0, 19.0, 20.0, 22.0, 25.0, 26.0, alpha.NAN)
ZV = (0.0, 5.0, 10.0, 15.0, 20.0, 25.0, alpha.NAN)

TIMEKINDS = [
    dict(tspan=list(A1)), dict(tspan=list(A2)),
    dict(period="month", tspan=[1, 2]), dict(period="week", tspan=[52, 53]), dict(period="weekofyear", tspan=[1, 1]),
    dict(period="dayofyear", tspan=[60, 366]), dict(period="quarter", tspan=[4, 4]),
    dict(period="dayofweek", tspan=[0, 2]), dict(period="year", tspan=[2020, 2020]),
]
ZSPANS = [None, [0, 10], [10, 20]]
VALSETS = [dict(vspan=[10, 20]), dict(vspan=[10, 20], fspan=[5, 25]), dict(vspan=[14, 16], fspan=[12, 18]), dict(vspan=[10, 20], fspan=[13, 17]), dict(vspan=[12, 22], fspan=[5, 16])]


def member_menu():
    menu = []
    for i, (tk, zs, vs) in enumerate(itertools.product(TIMEKINDS, ZSPANS, VALSETS)):
        m = dict(tk)
        m.update(vs)
        if zs is not None:
            m["zspan"] = list(zs)
        if i % 2:  # every other member spells all its spans in reverse order
            for k in ("tspan", "vspan", "fspan", "zspan"):
                if k in m:
                    m[k] = list(reversed(m[k]))
        menu.append(m)
    return menu


MENU = member_menu()
SUBMENU = [MENU[i] for i in (0, 4, 8, 13, 17, 24, 33, 48, 59, 73, 96, 119)]

META = dict(
    rule="configurations: every member list of length 0..1 and (quick: a third of the second members, thorough: every) list of length 2 over an 135-member menu (9 time kinds incl. 2 absolute "
         "spans, month, ISO week (both spellings), day-of-year, quarter, day-of-week, year x 3 depth spans x 5 value "
         "span sets (fail span enclosing, inside and overlapping the valid span); every other member spelt with reversed spans) [thorough: + every list of length 3 over a 12 "
         "member sub-menu]; inputs: product series of 28 calendar-edge instants x 17 values x 7 depths in 3 orders, "
         "the same with all depths missing and with zinp=None, + every sequence of length<=2 over an 18-triple "
         "alphabet; the same configuration object (list of dicts / ClimatologyConfig) used for a second call; each state = one call of the real climatology_test judged per point by the scalar reference "
         "(datetime.isocalendar etc.). Scale: the 3332-point product series also in chronological and reverse chronological order (time-ordered record), 12- and 40-member lists. non-trivial = reference demands a flag other than UNKNOWN somewhere",
    bounds={"quick": {"members_per_list": 2, "menu": 135, "instants": len(TIMES), "values": len(XV), "depths": len(ZV)},
            "thorough": {"members_per_list": "2 (menu 81) and 3 (sub-menu 12)", "instants": len(TIMES)}},
    not_judged=["points whose value is missing (C02)"],
    assumptions=["python datetime calendar functions are the calendar oracle"],
)


def _perm(n, k):
    # deterministic permutation: stride k (coprime with n)
    import math
    while math.gcd(k, n) != 1:
        k += 1
    return [(i * k) % n for i in range(n)]


def product_points():
    return [(t, x, z) for t in range(len(TIMES)) for x in XV for z in ZV]


PP = product_points()
ORDERS = {"fwd": list(range(len(PP))), "rev": list(range(len(PP) - 1, -1, -1)), "stride": _perm(len(PP), 389)}
# chronological (time-ordered record; values and depths interleaved) and reverse chronological
ORDERS["chrono"] = sorted(_perm(len(PP), 389), key=lambda i: dt.datetime.fromisoformat(TIMES[PP[i][0]]))
ORDERS["rchrono"] = list(reversed(ORDERS["chrono"]))
SMALL = [(t, x, z) for t in (2, 6, 11) for x in (4.0, 12.0, 15.0, 19.0, alpha.NAN) for z in (5.0, alpha.NAN)]   # (12 / 19: inside a valid span, outside a narrower fail span)


SPELLINGS = {"2020-2-29": "2020-02-29T00:00:00", "12/31/2020 12:00": "2020-12-31T12:00:00", "December 31, 2020 12:00": "2020-12-31T12:00:00",
             "2019-12-30": "2019-12-30T00:00:00", "1/2/2020": "2020-01-02T00:00:00"}


def _dt(s):
    return dt.datetime.fromisoformat(SPELLINGS.get(s, s))


def ref_members(members):
    out = []
    for m in members:
        r = dict(m)
        if m.get("period") is None:
            r["tspan"] = [_dt(s) for s in m["tspan"]]
        out.append(r)
    return out


def build_config(members, carrier):
    from ioos_qc.qartod import ClimatologyConfig

    ms = []
    for m in members:
        d = {k: (tuple(v) if isinstance(v, list) else v) for k, v in m.items()}
        ms.append(d)
    if carrier == "object":
        c = ClimatologyConfig()
        for d in ms:
            c.add(**d)
        return c
    return ms


def points_of(case):
    if "order" in case:
        idx = ORDERS[case["order"]]
        pts = [PP[i] for i in idx]
    else:
        pts = [tuple(p) for p in case["points"]]
    return pts


def check_case(case):
    from ioos_qc import qartod

    members = case["members"]
    pts = points_of(case)
    n = len(pts)
    tstr = [TIMES[p[0]] for p in pts]
    x = [p[1] for p in pts]
    z = [p[2] for p in pts]
    zmode = case.get("z", "given")
    tin = np.array(tstr, dtype="datetime64[ns]") if n else np.array([], dtype="datetime64[ns]")
    if zmode == "none":
        zin, zref = None, None
    elif zmode == "allmissing":
        zin, zref = alpha.nd([alpha.NAN] * n), [None] * n
    elif zmode == "masked":
        miss = [v == alpha.NAN for v in z]
        zin = np.ma.MaskedArray(np.array([5.0 if m else float(v) for v, m in zip(z, miss)]), mask=miss)
        zref = alpha.ref(z)
    else:
        zin, zref = alpha.nd(z), alpha.ref(z)
    cfg = alpha.call(build_config, members, case.get("cfg", "dicts"))
    if isinstance(cfg, alpha.Raised):
        out = cfg
    else:
        if case.get("grow") is not None and case.get("cfg") == "object":
            # the configuration object is used with its first members only, then the remaining members are added to the
            # SAME object and it is used again: the second run must see all of them
            from ioos_qc.qartod import ClimatologyConfig

            k = case["grow"]
            cfg = ClimatologyConfig()
            for m in build_config(members[:k], "dicts"):
                cfg.add(**m)
            alpha.call(qartod.climatology_test, cfg, alpha.nd(x), tin, zin)
            for m in build_config(members[k:], "dicts"):
                cfg.add(**m)
        out = alpha.call(qartod.climatology_test, cfg, alpha.nd(x), tin, zin)
        if case.get("twice") and not isinstance(out, alpha.Raised):
            # the SAME configuration object is used again (a second observation run with one config)
            out = alpha.call(qartod.climatology_test, cfg, alpha.nd(x), tin, zin)
    acceptable = R.climatology(ref_members(members), alpha.ref(x), [_dt(s) for s in tstr], zref)
    kinds = sorted({m.get("period") or "absolute" for m in members})
    anyz = any("zspan" in m for m in members)

    def classify(i):
        return "point"

    vs, obs = judge_flags(PROP, "climatology_test", out, acceptable, n,
                          extra_sig=f"periods={'+'.join(kinds)}|zspan={anyz}|z={zmode}|members={len(members)}", classify=classify)
    if len(vs) > 3:
        vs = vs[:3]
    nt = alpha.is_nontrivial(acceptable, boring=(2,))
    skipped = sum(1 for a in acceptable if a is None)
    return vs, nt, hash(obs) if isinstance(obs, tuple) and len(obs) > 50 else obs, skipped


def replay(case):
    return check_case(case)[0]


def tasks(tier):
    ts = [("lists01", i) for i in range(-1, len(MENU))]
    for i in range(len(MENU)):
        ts.append(("lists2", i, tier))
    ts.append(("xyx",))
    ts.append(("grow",))
    ts.append(("manymembers",))
    if tier == "thorough":
        for i in range(len(SUBMENU)):
            ts.append(("lists3", i))
        for i in range(len(MENU)):
            ts.append(("short2", i))
    return ts


def run_task(task, acc):
    kind = task[0]

    def prod_cases(members, full=True):
        for order in ORDERS if full else ("fwd",):
            yield dict(members=members, order=order)
        yield dict(members=members, order="stride", z="allmissing")
        yield dict(members=members, order="stride", z="none")
        if any("zspan" in m for m in members):
            yield dict(members=members, order="stride", z="masked")

    if kind == "lists01":
        def gen():
            for members in ([[]] if task[1] < 0 else [[MENU[task[1]]]]):
                yield from prod_cases(members)
                yield dict(members=members, order="stride", cfg="object")
                yield dict(members=members, order="stride", cfg="object", twice=True)
                yield dict(members=members, order="stride", twice=True)
                for pts in alpha.all_seqs(SMALL, 0, 2):
                    yield dict(members=members, points=[list(p) for p in pts])
        run_cases(acc, gen(), check_case)
    elif kind == "lists2":
        a = MENU[task[1]]
        second = MENU if task[2] == "thorough" else MENU[task[1] % 3::3]
        def gen():
            for b in second:
                yield from prod_cases([a, b])
        run_cases(acc, gen(), check_case)
    elif kind == "manymembers":
        # long member lists (6, 12 and 40 members; every time kind, depth span and value set mixed)
        def gen():
            for size, stride in ((6, 23), (6, 31), (12, 7), (12, 19), (40, 11), (40, 3)):
                members = [MENU[(5 + i * stride) % len(MENU)] for i in range(size)]
                for order in ORDERS:
                    yield dict(members=members, order=order)
                yield dict(members=members, order="stride", z="masked")
                yield dict(members=list(reversed(members)), order="stride")
        run_cases(acc, gen(), check_case)
    elif kind == "grow":
        def gen():
            plain = [m for m in MENU if "zspan" not in m][::7]
            deep = [m for m in MENU if "zspan" in m][::5]
            for a in plain:
                for b in deep:
                    yield dict(members=[a, b], order="stride", cfg="object", grow=1)
                    yield dict(members=[b, a], order="stride", cfg="object", grow=1)
                    yield dict(members=[a, b, a], order="stride", cfg="object", grow=2)
                    yield dict(members=[a, b], order="stride", cfg="object", grow=0)
            # absolute bounds spelled in other ways pandas accepts (unpadded, US style, month names), in both orders
            for tspan in (["2020-2-29", "12/31/2020 12:00"], ["12/31/2020 12:00", "2020-2-29"], ["2020-2-29", "December 31, 2020 12:00"], ["2019-12-30", "1/2/2020"], ["1/2/2020", "2019-12-30"]):
                for vs_ in VALSETS[:3]:
                    for zs in ZSPANS[:2]:
                        m = dict(tspan=list(tspan), **vs_)
                        if zs is not None:
                            m["zspan"] = list(zs)
                        yield dict(members=[m], order="stride")
                        yield dict(members=[MENU[3], m], order="chrono", cfg="object")
        run_cases(acc, gen(), check_case)
    elif kind == "xyx":
        # three members whose time kinds interleave (X, Y, X) with different verdicts: configuration order must win
        xs = [MENU[i] for i in (0, 15, 30, 45, 75, 105)]   # one member per time kind, value set 0 / 1 alternately
        ys = [MENU[i] for i in (17, 32, 62, 92, 122)]
        def gen():
            for a in xs:
                for b in ys:
                    for c in MENU:
                        if (c.get("period") or "abs") == (a.get("period") or "abs") and (b.get("period") or "abs") != (a.get("period") or "abs"):
                            yield dict(members=[a, b, c], order="stride")
        run_cases(acc, gen(), check_case)
    elif kind == "lists3":
        a = SUBMENU[task[1]]
        def gen():
            for b in SUBMENU:
                for c in SUBMENU:
                    yield from prod_cases([a, b, c], full=False)
        run_cases(acc, gen(), check_case)
    elif kind == "short2":
        a = MENU[task[1]]
        def gen():
            for b in SUBMENU:
                for pts in alpha.all_seqs(SMALL, 1, 2):
                    yield dict(members=[a, b], points=[list(p) for p in pts])
        run_cases(acc, gen(), check_case)
