"""C14 - location_test: bounding-box membership, hop distance, missing coordinates."""
from __future__ import annotations

import itertools

from mc import alpha
from refmodel import qc as R

from .common import judge_flags, run_cases

PROP = "C14"
LONS = (-11.0, -10.0, 0.0, 10.0, 11.0, alpha.NAN)
LATS = (-6.0, -5.0, 0.0, 5.0, 6.0, alpha.NAN)
BOXPOS = [(lo, la) for lo in LONS for la in LATS]
GLOBE = [(179.9, 0.0), (-179.9, 0.0), (180.0, 90.0), (0.0, 60.0), (1.0, 60.0), (-180.0, -90.0), (181.0, 0.0), (0.0, 91.0),
         (alpha.NAN, 0.0), (alpha.NAN, alpha.NAN)]
RED = [(lo, la) for lo in (-11.0, -10.0, 0.0, alpha.NAN) for la in (-5.0, 0.0, 6.0, alpha.NAN)]
SMALL = [-10, -5, 10, 5]
BOXES = (("default", None), ("list", SMALL), ("tuple", SMALL), ("list", [0, 0, 0, 0]), ("list", [-10.0, -5.0, 10.0, 5.0]), ("list", [-11, 5, -10, 6]))
MALFORMED = (("list", [-10, -5, 10]), ("list", [-10, -5, 10, 5, 0]), ("none", None), ("raw", "abcd"), ("raw", 5), ("list", []))
NMAX = {"quick": 2, "thorough": 3}
BUDGET = {"quick": 600, "thorough": 3000}

META = dict(
    rule="every track of length 0..N over 36 positions around the box (-10,-5,10,5) (lon,lat each below/on/inside/on/"
         "above the edges or missing) x bbox in {default, small box as list/tuple/floats, degenerate box, a box that excludes the origin} x range_max "
         "in {None} + {0.9d, d, 1.1d, floor(d), (floor(d)+d)/2 : d a hop distance of the track or the distance across a one-point gap}; the same over a 10-position globe menu "
         "(antimeridian, poles, out-of-globe, missing) with the default box; product series of all positions in 3 "
         "orders; malformed boxes (3/5/0 items, None, str, number) and unequal lon/lat lengths must be rejected. Each "
         "state = one real call judged per point by the scalar reference (geographiclib per pair with explicit "
         "lat/lon). Scale: 5000-fix track over the reduced position set, 1297-fix track with every ordered pair as a hop, 1200-fix tracks on both sides of the antimeridian and around the globe (extent small, hops huge). non-trivial = reference demands a flag other than GOOD or a rejection",
    bounds={"quick": {"track_len": "2 over 36 positions, 3 over a 16-position sub-grid and over the globe menu"}, "thorough": {"track_len": 3}},
    not_judged=[],
    assumptions=["geographiclib is the distance oracle; hop distances are compared with thresholds derived from the same oracle (exact equality included)"],
)


def range_cands(track):
    lon = alpha.ref([p[0] for p in track])
    lat = alpha.ref([p[1] for p in track])
    c = []
    pairs = [(i - 1, i) for i in range(1, len(track))] + [(i - 2, i) for i in range(2, len(track))]
    for j, i in pairs:  # hops, and the distance across a gap (must NOT be used by the test)
        if R.full(lon, lat, i) and R.full(lon, lat, j):
            d = R.geodist(lat[j], lon[j], lat[i], lon[i])
            import math as _m
            if not _m.isfinite(d):
                continue
            for v in (0.9 * d, d, 1.1 * d, float(_m.floor(d)), (float(_m.floor(d)) + d) / 2):
                if v not in c:
                    c.append(v)
    return [None] + sorted(c)


def tasks(tier):
    n = NMAX[tier]
    ts = [("short",)]
    for a in range(len(BOXPOS)):
        ts.append(("box", a, n))
    for a in range(len(GLOBE)):
        ts.append(("globe", a, max(n, 3)))
    if n < 3:
        for a in range(len(RED)):
            ts.append(("box3r", a))
    ts.append(("product",))
    ts.append(("tiny",))
    ts.append(("masked",))
    ts.append(("long",))
    ts.append(("reject",))
    return ts


def check_case(case):
    from ioos_qc import qartod

    track = case["track"]
    lon = [p[0] for p in track]
    lat = [p[1] for p in track]
    kw = {}
    bk, bv = case["bbox"]
    if bk == "list":
        kw["bbox"] = list(bv)
    elif bk == "tuple":
        kw["bbox"] = tuple(bv)
    elif bk in ("none", "raw"):
        kw["bbox"] = bv
    if case.get("range_max") is not None:
        kw["range_max"] = case["range_max"]
    if "shapes" in case:
        import numpy as np

        sa, sb = case["shapes"]
        lo = np.zeros(int(np.prod(sa)) if sa else 1).reshape(sa)
        la = np.zeros(int(np.prod(sb)) if sb else 1).reshape(sb)
        out = alpha.call(qartod.location_test, lo, la, **kw)
        vs, obs = judge_flags(PROP, "location_test", out, "reject", 0, extra_sig="lon/lat-shape-mismatch(equal-size)")
        return vs, True, obs, 0
    if "lens" in case:
        a, b = case["lens"]
        out = alpha.call(qartod.location_test, alpha.nd([0.0] * a), alpha.nd([0.0] * b), **kw)
        vs, obs = judge_flags(PROP, "location_test", out, "reject", a, extra_sig="lon/lat-length-mismatch")
        return vs, True, obs, 0
    lon_in, lat_in = alpha.nd(lon), alpha.nd(lat)
    if case.get("carrier") == "ma":  # masked coordinates hiding finite in-box values
        import numpy as np

        lon_in = np.ma.MaskedArray(np.array([1.0 if v == alpha.NAN else v for v in lon]), mask=[v == alpha.NAN for v in lon])
        lat_in = np.ma.MaskedArray(np.array([1.0 if v == alpha.NAN else v for v in lat]), mask=[v == alpha.NAN for v in lat])
    out = alpha.call(qartod.location_test, lon_in, lat_in, **kw)
    if case.get("malformed"):
        vs, obs = judge_flags(PROP, "location_test", out, "reject", len(track), extra_sig=f"malformed-bbox={bk}:{bv!r}")
        return vs, True, obs, 0
    box = tuple(bv) if bv is not None else (-180, -90, 180, 90)
    acceptable = R.location(alpha.ref(lon), alpha.ref(lat), box, case.get("range_max"))
    vs, obs = judge_flags(PROP, "location_test", out, acceptable, len(track),
                          extra_sig=f"bbox={bk}|range_max={'given' if case.get('range_max') is not None else 'none'}",
                          classify=lambda i: "first" if i == 0 else "later")
    return vs, alpha.is_nontrivial(acceptable), (hash(obs) if isinstance(obs, tuple) and len(obs) > 40 else obs), 0


def replay(case):
    return check_case(case)[0]


def run_task(task, acc):
    kind = task[0]
    if kind == "short":
        def gen():
            for b in BOXES:
                yield dict(track=[], bbox=list(b))
                for p in BOXPOS + GLOBE:
                    yield dict(track=[list(p)], bbox=list(b))
                    yield dict(track=[list(p)], bbox=list(b), range_max=1.0)
        run_cases(acc, gen(), check_case)
    elif kind == "box":
        _, a, n = task

        def gen():
            for k in range(2, n + 1):
                for rest in itertools.product(BOXPOS, repeat=k - 1):
                    track = [list(BOXPOS[a])] + [list(p) for p in rest]
                    rc = range_cands(track)
                    for b in BOXES:
                        for r in rc:
                            yield dict(track=track, bbox=list(b), range_max=r)
        run_cases(acc, gen(), check_case)
    elif kind == "masked":
        def gen():
            for k in (1, 2, 3):
                for tr in itertools.product(RED, repeat=k):
                    if not any(alpha.NAN in p for p in tr):
                        continue
                    track = [list(p) for p in tr]
                    for b in BOXES[:2]:
                        for r in (None, 100_000.0):
                            yield dict(track=track, bbox=list(b), range_max=r, carrier="ma")
        run_cases(acc, gen(), check_case)
    elif kind == "box3r":
        a = task[1]

        def gen():
            for rest in itertools.product(RED, repeat=2):
                track = [list(RED[a])] + [list(p) for p in rest]
                rc = range_cands(track)
                for b in BOXES[:4]:
                    for r in rc:
                        yield dict(track=track, bbox=list(b), range_max=r)
        run_cases(acc, gen(), check_case)
    elif kind == "globe":
        _, a, n = task

        def gen():
            for k in range(2, n + 1):
                for rest in itertools.product(GLOBE, repeat=k - 1):
                    track = [list(GLOBE[a])] + [list(p) for p in rest]
                    for r in range_cands(track):
                        yield dict(track=track, bbox=["default", None], range_max=r)
        run_cases(acc, gen(), check_case)
    elif kind == "tiny":
        # hops of 5 m .. 200 m at large and small coordinates against hop limits of 1 m .. 1 km (no "same fix" tolerance)
        def gen():
            anchors = ((179.9, 60.0), (-179.99, -45.0), (0.0, 0.0), (0.001, 0.0005), (120.0, 89.0), (-75.5, 35.25), (1e-9, 1e-9))
            steps = ((0.001, 0.0), (0.0, 0.0005), (0.0002, 0.0002), (0.0, 0.0), (-0.0005, 0.00005), (1e-7, 0.0))
            for a in anchors:
                for k in (2, 3):
                    for st in itertools.product(steps, repeat=k - 1):
                        track = [list(a)]
                        for dx, dy in st:
                            track.append([track[-1][0] + dx, track[-1][1] + dy])
                        for r in (0.0, 1.0, 5.0, 25.0, 50.0, 100.0, 1000.0):
                            yield dict(track=track, bbox=["default", None], range_max=r)
        run_cases(acc, gen(), check_case)
    elif kind == "product":
        def gen():
            allp = [list(p) for p in BOXPOS + GLOBE]
            orders = [allp, list(reversed(allp)), allp[7:] + allp[:7]]
            for o in orders:
                for b in BOXES:
                    for r in (None, 1.0, 600_000.0, 1e8):
                        yield dict(track=o, bbox=list(b), range_max=r)
        run_cases(acc, gen(), check_case)
    elif kind == "long":
        def gen():
            xl_track = [list(p) for p in alpha.xl(tuple(RED), 5000, 2)]
            for r in (None, 1000.0, 111_000.0, 250_000.0):
                yield dict(track=xl_track, bbox=list(BOXES[1]), range_max=r)
            # long tracks on both sides of the antimeridian and around the globe: the extent's corner-to-corner distance is small
            # (or meaningless) although single hops are huge
            wrap = ((179.9, 0.0), (-179.9, 0.0), (0.0, 0.0), (90.0, 0.1), (179.5, 0.2), (-179.6, -0.1))
            for pts in (wrap, wrap[:2] + wrap[4:], tuple(GLOBE)):
                tr = [list(p) for p in alpha.xl(pts, 1200, 2)]
                for r in (1000.0, 100_000.0, 5_000_000.0):
                    yield dict(track=tr, bbox=["default", None], range_max=r)
            track = [list(p) for p in alpha.debruijn(tuple(BOXPOS), 2)]  # every ordered pair of positions as a hop, 1297 fixes
            for b in BOXES:
                for r in (None, 0.0, 1000.0, 111_000.0, 250_000.0, 1e7):
                    yield dict(track=track, bbox=list(b), range_max=r)
        run_cases(acc, gen(), check_case)
    elif kind == "reject":
        def gen():
            for m in MALFORMED:
                for track in ([], [[0.0, 0.0]], [[0.0, 0.0], [1.0, 1.0]]):
                    for r in (None, 1.0):
                        yield dict(track=track, bbox=list(m), range_max=r, malformed=True)
            for a in range(4):
                for b in range(4):
                    if a != b:
                        for bx in BOXES[:2]:
                            yield dict(track=[], lens=[a, b], bbox=list(bx))
            for sa, sb in (([2, 3], [3, 2]), ([2, 3], [6]), ([6], [3, 2]), ([1, 2], [2]), ([2], [2, 1]), ([1, 4], [2, 2])):
                for bx in BOXES[:2]:
                    for r in (None, 1000.0):
                        yield dict(track=[], shapes=[sa, sb], bbox=list(bx), range_max=r)
        run_cases(acc, gen(), check_case)
