"""Glue shared by the property modules."""
from __future__ import annotations

import json

from mc import alpha
from mc.core import jsonable

_DUMPS = json.JSONEncoder(sort_keys=True, separators=(",", ":"), allow_nan=False).encode


def cid(case):
    try:
        return _DUMPS(case)
    except (TypeError, ValueError):
        return _DUMPS(jsonable(case))


def run_cases(acc, cases, check_case, edges=1):
    """Execute + judge every case of an iterable; check_case(case) ->
    (violations, nontrivial, observation, n_not_judged[, n_exec])."""
    for case in cases:
        res = check_case(case)
        vs, nt, obs, sk = res[:4]
        nexec = res[4] if len(res) > 4 else 1
        acc.visit(cid(case), nt, obs, edges=edges, evals=nexec, sample=case)
        if sk:
            acc.skip(sk)
        for v in vs:
            acc.violation(v["signature"], v["what"], case, v.get("expected"), v.get("observed"), size=v.get("size"))


def V(signature, what, expected=None, observed=None, size=None):
    return dict(signature=signature, what=what, expected=expected, observed=observed, size=size)


def posclass(i, n):
    if n == 1:
        return "only"
    if i == 0:
        return "first"
    if i == n - 1:
        return "last"
    return "interior"


def judge_flags(prop, site, out, acceptable, n, extra_sig="", classify=None):
    """Generic oracle for one call that must return n flags each in acceptable[i].

    Returns (violations, obs). `acceptable` may be the strings "ValueError" /
    "reject" (= the call must raise ValueError / anything).
    """
    vs = []
    if isinstance(acceptable, str):
        if isinstance(out, alpha.Raised):
            if acceptable == "ValueError" and out.name != "ValueError":
                vs.append(V(f"{prop}|{site}|{extra_sig}|expected=ValueError|observed=raises:{out.name}",
                            f"{site} must reject with ValueError but raised {out.name}", acceptable, repr(out)))
            return vs, ("exc", out.name)
        vals, _, _ = alpha.flags_of(out)
        vs.append(V(f"{prop}|{site}|{extra_sig}|expected={acceptable}|observed=returned",
                    f"{site} must reject this input but returned flags", acceptable, vals))
        return vs, ("ret", tuple(vals or ()))
    if isinstance(out, alpha.Raised):
        vs.append(V(f"{prop}|{site}|{extra_sig}|symptom=raises:{out.name}",
                    f"{site} raised {out.name}: {out.msg}", alpha.acc_json(acceptable), repr(out)))
        return vs, ("exc", out.name)
    vals, shape, problems = alpha.flags_of(out)
    if vals is None:
        vs.append(V(f"{prop}|{site}|{extra_sig}|symptom={problems[0]}", f"{site} returned an unusable value", None, problems))
        return vs, ("bad",)
    if len(vals) != n:
        vs.append(V(f"{prop}|{site}|{extra_sig}|symptom=length", f"{site} returned {len(vals)} flags for {n} points",
                    alpha.acc_json(acceptable), vals))
        return vs, ("len", len(vals))
    bad = alpha.judge(vals, acceptable)
    if bad:
        exp_json = alpha.acc_json(acceptable) if n <= 64 else None
        seen = set()
        for i in bad:
            pc = classify(i) if classify else posclass(i, n)
            sig = f"{prop}|{site}|{extra_sig}|at={pc}|expected={sorted(acceptable[i])}|observed={vals[i]}"
            if sig in seen:
                continue
            seen.add(sig)
            if exp_json is None:  # long series: report a window around the point
                lo, hi = max(0, i - 2), min(n, i + 3)
                e = {"index": i, "window": [lo, hi], "acceptable": alpha.acc_json(acceptable[lo:hi])}
                o = {"index": i, "window": [lo, hi], "flags": vals[lo:hi]}
            else:
                e, o = exp_json, vals
            vs.append(V(sig, f"{site}: point {i} flagged {vals[i]}, acceptable {sorted(acceptable[i])}", e, o, size=n * 1000 + i))
    return vs, tuple(vals)
