"""Glue shared by the property modules."""
from __future__ import annotations

import collections
import json

from mc import alpha, core
from mc.core import jsonable

_DUMPS = json.JSONEncoder(sort_keys=True, separators=(",", ":"), allow_nan=False).encode


def cid(case):
    try:
        return _DUMPS(case)
    except (TypeError, ValueError):
        return _DUMPS(jsonable(case))


_CLASS = {}   # signature -> +k: reproduced k times from a fresh state / -k: k times only after earlier cases
_RECENT = collections.deque(maxlen=48)   # the cases this worker process executed last (for history-dependent failures)


def confirm(check_case, case, vs):
    """A violation seen in a long-lived worker is re-executed from the library's initial module state.  If it only
    exists after earlier cases of this process (a memo / pool / registry inside the library that outlives a call), the
    shortest recent history that reproduces it is recorded with the case, so that the replay is deterministic."""
    sigs = {v["signature"] for v in vs}
    if all(_CLASS.get(s, 0) >= 3 for s in sigs):
        return vs, case            # these signatures reproduced from a fresh state several times already
    if all(_CLASS.get(s, 0) <= -3 for s in sigs):
        return [], case            # already recorded (with its history) several times

    def again(history):
        core.fresh_modules()
        for h in history:
            try:
                check_case(h)
            except Exception:  # noqa: BLE001
                pass
        try:
            return [v for v in check_case(case)[0] if v["signature"] in sigs]
        except Exception:  # noqa: BLE001
            return []

    if again([]):
        for s in sigs:
            _CLASS[s] = max(_CLASS.get(s, 0), 0) + 1
        return vs, case
    for s in sigs:
        _CLASS[s] = min(_CLASS.get(s, 0), 0) - 1
    recent = [c for c in _RECENT if isinstance(c, dict)]
    for hist in [[c] for c in reversed(recent)] + [recent]:
        got = again(hist)
        if got:
            out = [dict(v, signature=v["signature"] + core.HIST_TAG, what=v["what"] + " (only after the earlier call(s) recorded in _history)") for v in got]
            return out, dict(case, _history=hist)
    return vs, case   # not reproducible: reported as a harness error by the final replay


def run_cases(acc, cases, check_case, edges=1):
    """Execute + judge every case of an iterable; check_case(case) ->
    (violations, nontrivial, observation, n_not_judged[, n_exec])."""
    for case in cases:
        res = check_case(case)
        vs, nt, obs, sk = res[:4]
        nexec = res[4] if len(res) > 4 else 1
        acc.visit(cid(case), nt, obs, edges=edges, evals=nexec, sample=case)
        if sk:
            acc.skip(sk)
        rec = case
        if vs and isinstance(case, dict):
            vs, rec = confirm(check_case, case, vs)
        for v in vs:
            acc.violation(v["signature"], v["what"], rec, v.get("expected"), v.get("observed"), size=v.get("size"))
        _RECENT.append(case)


def V(signature, what, expected=None, observed=None, size=None):
    return dict(signature=signature, what=what, expected=expected, observed=observed, size=size)


def posclass(i, n):
    if n == 1:
        return "only"
    if i == 0:
        return "first"
    if i == n - 1:
        return "last"
    return "interior"


def judge_flags(prop, site, out, acceptable, n, extra_sig="", classify=None):
    """Generic oracle for one call that must return n flags each in acceptable[i].

    Returns (violations, obs). `acceptable` may be the strings "ValueError" /
    "reject" (= the call must raise ValueError / anything).
    """
    vs = []
    if isinstance(acceptable, str):
        if isinstance(out, alpha.Raised):
            if acceptable == "ValueError" and out.name != "ValueError":
                vs.append(V(f"{prop}|{site}|{extra_sig}|expected=ValueError|observed=raises:{out.name}",
                            f"{site} must reject with ValueError but raised {out.name}", acceptable, repr(out)))
            return vs, ("exc", out.name)
        vals, _, _ = alpha.flags_of(out)
        vs.append(V(f"{prop}|{site}|{extra_sig}|expected={acceptable}|observed=returned",
                    f"{site} must reject this input but returned flags", acceptable, vals))
        return vs, ("ret", tuple(vals or ()))
    if isinstance(out, alpha.Raised):
        vs.append(V(f"{prop}|{site}|{extra_sig}|symptom=raises:{out.name}",
                    f"{site} raised {out.name}: {out.msg}", alpha.acc_json(acceptable), repr(out)))
        return vs, ("exc", out.name)
    vals, shape, problems = alpha.flags_of(out)
    if vals is None:
        vs.append(V(f"{prop}|{site}|{extra_sig}|symptom={problems[0]}", f"{site} returned an unusable value", None, problems))
        return vs, ("bad",)
    if len(vals) != n:
        vs.append(V(f"{prop}|{site}|{extra_sig}|symptom=length", f"{site} returned {len(vals)} flags for {n} points",
                    alpha.acc_json(acceptable), vals))
        return vs, ("len", len(vals))
    bad = alpha.judge(vals, acceptable)
    if bad:
        exp_json = alpha.acc_json(acceptable) if n <= 64 else None
        seen = set()
        for i in bad:
            pc = classify(i) if classify else posclass(i, n)
            sig = f"{prop}|{site}|{extra_sig}|at={pc}|expected={sorted(acceptable[i])}|observed={vals[i]}"
            if sig in seen:
                continue
            seen.add(sig)
            if exp_json is None:  # long series: report a window around the point
                lo, hi = max(0, i - 2), min(n, i + 3)
                e = {"index": i, "window": [lo, hi], "acceptable": alpha.acc_json(acceptable[lo:hi])}
                o = {"index": i, "window": [lo, hi], "flags": vals[lo:hi]}
            else:
                e, o = exp_json, vals
            vs.append(V(sig, f"{site}: point {i} flagged {vals[i]}, acceptable {sorted(acceptable[i])}", e, o, size=n * 1000 + i))
    return vs, tuple(vals)
