"""Tables, window programs, stream front ends and the probe test shared by C05 / C06 / C18 / C19."""
from __future__ import annotations

import datetime as dt
import inspect

import numpy as np

from mc import alpha

DAY = 86400
T0 = alpha.T0  # 2020-01-01T00:00:00
V = [1.0, 5.0, 2.0, 9.0, 3.0, 3.0, 8.0]
W = [7.0, 7.0, 1.0, 8.0, 2.0, 6.0, 6.0]
Z = [0.0, 5.0, 10.0, 15.0, 20.0, 25.0, 30.0]
LAT = [0.0, 1.0, 0.0, 1.0, 2.0, 2.0, 0.0]
LON = [0.0, 0.0, 60.0, 60.0, 61.0, 0.0, 1.0]

FRONTENDS = ("pandas:range", "pandas:shift", "pandas:dtindex", "pandas:dup", "numpy:nd", "numpy:dict", "xarray:coord", "xarray:var", "netcdf", "qcconfig")

PROBE_LOG = []


def install_probes():
    """Register the harness test functions on ioos_qc.qartod (resolved by ContextConfig via getattr)."""
    from ioos_qc import qartod

    if getattr(qartod, "vprobe_test", None) is not None and getattr(qartod.vprobe_test, "_verif", False):
        return

    def vprobe_test(inp, tinp=None, zinp=None, lat=None, lon=None, code=1, plain=False):
        """Harness probe: records what it receives, returns `code` for every row (as a masked uint8 array like most
        library tests, or with plain=True as a plain integer ndarray like flat_line_test / speed_test)."""
        rec = dict(code=code)
        for k, v in (("inp", inp), ("tinp", tinp), ("zinp", zinp), ("lat", lat), ("lon", lon)):
            if v is None:
                rec[k] = None
            else:
                a = np.asarray(v)
                if a.dtype.kind == "M":
                    rec[k] = [None if np.isnat(x) else int(x.astype("datetime64[s]").astype("int64")) for x in a]
                elif a.dtype.kind == "O":
                    rec[k] = [int(np.datetime64(x, "s").astype("int64")) if not isinstance(x, (int, float)) else x for x in a.tolist()]
                else:
                    rec[k] = [float(x) for x in a.tolist()]
        PROBE_LOG.append(rec)
        if plain:
            return np.full(np.shape(np.asarray(inp)), code)
        return np.ma.MaskedArray(np.full(np.shape(np.asarray(inp)), code, dtype="uint8"))

    def vraise_test(inp, boom=1):
        """Harness probe that always raises while evaluating."""
        raise RuntimeError("vraise_test: evaluation failure injected by the harness")

    for f in (vprobe_test, vraise_test):
        f.__module__ = "ioos_qc.qartod"
        f._verif = True
        setattr(qartod, f.__name__, f)


SHUFFLE = {0: [], 1: [0], 2: [1, 0], 3: [1, 2, 0], 4: [2, 0, 3, 1], 5: [3, 0, 4, 1, 2], 6: [2, 5, 0, 3, 1, 4], 7: [3, 6, 1, 4, 0, 5, 2]}


def _col(base, n):
    """column values for n rows (the 7 hand-picked values, then a deterministic continuation)"""
    return [base[i] if i < len(base) else float((base[i % len(base)] * 3 + i * 7) % 11) for i in range(n)]


def table(n, has_z=True, has_ll=True, shuffled=False, nat=False, duptime=False):
    """rows in file order; with shuffled=True the time column is not monotonic (rows keep their order);
    with nat=True the second row has a missing time (None = NaT)."""
    if shuffled:
        order = SHUFFLE[n] if n in SHUFFLE else [(i * 7 + 3) % n for i in range(n)] if n % 7 else [(i * 5 + 3) % n for i in range(n)]
    else:
        order = list(range(n))
    d = dict(n=n, time=[T0 + i * DAY for i in order], v=_col(V, n), w=_col(W, n))
    if nat and n >= 2:
        d["time"][1] = None
    if duptime:  # pairs of rows share a timestamp
        d["time"] = [T0 + (i // 2) * DAY for i in order]
    if has_z:
        d["z"] = [5.0 * i for i in range(n)] if n > len(Z) else Z[:n]
    if has_ll:
        d["lat"] = _col(LAT, n)
        d["lon"] = _col(LON, n)
        return d
    if has_ll:
        d["lat"] = LAT[:n]
        d["lon"] = LON[:n]
    return d


def bound(sec, style):
    """seconds -> window bound as the config would carry it."""
    if sec is None:
        return None
    d = dt.datetime(1970, 1, 1) + dt.timedelta(milliseconds=int(round(float(sec) * 1000)))   # (whole seconds or fractions)
    if style == "datetime":
        return d
    return d.isoformat()


def window_grid(n):
    g = [T0 - DAY]
    for i in range(n):
        g.append(T0 + i * DAY)
        g.append(T0 + i * DAY + DAY // 2)
    g.append(T0 + max(n - 1, 0) * DAY + DAY)
    return sorted(set(g))


def ref_mask(times, start, end):
    """a row with a missing time satisfies no bound"""
    return [((start is None and end is None) if t is None else ((start is None or t >= start) and (end is None or t < end))) for t in times]


def dt64n(secs):
    """epoch seconds (None = NaT) -> datetime64[ns]"""
    return np.array([np.datetime64("NaT") if s is None else np.datetime64(int(round(float(s) * 1000)), "ms") for s in secs], dtype="datetime64[ns]") if len(secs) else np.array([], dtype="datetime64[ns]")


def window_kind(times, start, end):
    if start is None and end is None:
        return "none"
    if start is not None and end is not None:
        if start > end:
            return "inverted"
        return "closed"
    return "starting-only" if end is None else "ending-only"


def make_config(contexts, style="str"):
    """contexts: list of dict(start, end, streams={sid: {module: {test: kwargs}}}) -> config dict."""
    out = []
    for c in contexts:
        d = {"streams": c["streams"]}
        w = {}
        if c.get("start") is not None:
            w["starting"] = bound(c["start"], style)
        if c.get("end") is not None:
            w["ending"] = bound(c["end"], style)
        if w:
            d["window"] = w
        out.append(d)
    if len(out) == 1:
        return out[0]
    return {"contexts": out}


def run_frontend(fe, tab, config_dict):
    """-> list of ContextResult (or raises).  QcConfig.run returns a dict instead (handled by caller)."""
    import pandas as pd
    import xarray as xr

    from ioos_qc.config import Config
    from ioos_qc.streams import NetcdfStream, NumpyStream, PandasStream, XarrayStream

    n = tab["n"]
    times = dt64n(tab["time"])
    cols = {k: np.array(tab[k], dtype="float64") for k in ("v", "w", "z", "lat", "lon") if k in tab}
    extra = {k: np.array(a, dtype="float64") for k, a in (tab.get("extra") or {}).items()}   # further measured columns (wide tables)
    cols.update(extra)
    measured = ("v", "w", *extra)
    kind, _, variant = fe.partition(":")
    cfg = Config(config_dict)
    if variant == "names":
        # custom axis names handed to the stream constructor
        ren = {"time": "t", "z": "depth", "lat": "y", "lon": "x"}
        c2 = {ren.get(k, k): a for k, a in cols.items()}
        names = dict(time="t", z="depth", lat="y", lon="x")
        if kind == "pandas":
            return list(PandasStream(pd.DataFrame({"t": times, **c2}), **names).run(cfg))
        ds = xr.Dataset({k: ("t", a) for k, a in c2.items()}, coords={"t": times})
        if kind == "netcdf":
            return list(NetcdfStream(ds, **names).run(cfg))
        return list(XarrayStream(ds, **names).run(cfg))
    if kind == "pandas":
        df = pd.DataFrame({"time": times, **cols})
        if variant == "shift":
            df.index = range(10, 10 + n)
        elif variant == "dtindex":
            df.index = pd.DatetimeIndex(times)
        elif variant == "dup":
            df.index = [i // 2 for i in range(n)]  # repeated index labels
        elif variant == "secunit":
            df["time"] = df["time"].astype("datetime64[s]")   # a time column at whole-second resolution
        return list(PandasStream(df).run(cfg))
    if kind == "numpy":
        axes = {k2: cols[k] for k, k2 in (("z", "z"), ("lat", "lat"), ("lon", "lon")) if k in cols}
        if variant == "dictnotime":
            return list(NumpyStream(inp={k: cols[k] for k in measured}, **axes).run(cfg))
        if variant == "nd":
            return list(NumpyStream(inp=cols["v"], time=times, **axes).run(cfg))
        if variant == "ma":
            # the measured columns arrive as masked arrays (second row masked, a finite value underneath)
            mk = lambda a: np.ma.MaskedArray(a, mask=[i == 1 for i in range(len(a))])
            return list(NumpyStream(inp={k: mk(cols[k]) for k in measured}, time=times, **axes).run(cfg))
        return list(NumpyStream(inp={k: cols[k] for k in measured}, time=times, **axes).run(cfg))
    if kind in ("xarray", "netcdf"):
        if variant == "twodims":
            # v, w on the time dimension with z/lat/lon as coordinates; u on another, longer dimension without any axis
            data = {k: ("time", cols[k]) for k in measured}
            data["u"] = ("obs", np.arange(n + 2, dtype="float64"))
            coords = {"time": times}
            for k in ("z", "lat", "lon"):
                if k in cols:
                    coords[k] = ("time", cols[k])
            ds = xr.Dataset(data, coords=coords)
        elif variant == "notime":
            # the measured variables sit on a dimension called "time" that has no coordinate / variable at all
            ds = xr.Dataset({k: (("time",), a) for k, a in cols.items()})
        elif variant == "var":
            ds = xr.Dataset({k: ("obs", a) for k, a in cols.items()} | {"time": ("obs", times)})
        else:
            ds = xr.Dataset({k: ("time", a) for k, a in cols.items()}, coords={"time": times})
            if variant == "axcoords":   # depth / latitude / longitude as coordinates of the measured variables (CF style)
                ds = ds.set_coords([k for k in ("z", "lat", "lon") if k in cols])
        if variant == "file":
            # through a NetCDF-3 file on disk (scipy engine), times stored as seconds since the epoch
            import os
            import tempfile

            fd, path = tempfile.mkstemp(suffix=".nc", prefix="verif_stream_", dir="/tmp")
            os.close(fd)
            try:
                ds.to_netcdf(path, engine="scipy", encoding={"time": {"units": "seconds since 1970-01-01T00:00:00", "dtype": "float64"}})
                if kind == "netcdf":
                    return list(NetcdfStream(path).run(cfg))
                return list(XarrayStream(path).run(cfg))
            finally:
                os.remove(path)
        if kind == "netcdf":
            return list(NetcdfStream(ds).run(cfg))
        return list(XarrayStream(ds).run(cfg))
    raise KeyError(fe)


def direct_call(module, test, kwargs, tab, rows):
    """The reference: the real test function called directly on the window rows."""
    import importlib

    fn = getattr(importlib.import_module(f"ioos_qc.{module}"), test)
    sel = lambda col: np.array([tab[col][i] for i in rows], dtype="float64")
    kw = dict(kwargs or {})
    kw["inp"] = None  # placeholder, set by caller
    avail = {"tinp": dt64n([tab["time"][i] for i in rows])}
    if "z" in tab:
        avail["zinp"] = sel("z")
    if "lat" in tab:
        avail["lat"] = sel("lat")
        avail["lon"] = sel("lon")
    return fn, kw, avail


def filter_sig(fn, kw):
    names = [p.name for p in inspect.signature(fn).parameters.values() if p.kind == p.POSITIONAL_OR_KEYWORD]
    return {k: v for k, v in kw.items() if k in names}
