"""C17 - flags ignore value/time offsets and depend only on the local neighbourhood (metamorphic)."""
from __future__ import annotations

import itertools

import numpy as np

from mc import alpha
from refmodel import qc as R

from . import registry as G
from .common import V, cid

PROP = "C17"
NAN = alpha.NAN
BUDGET = {"quick": 900, "thorough": 3400}
VOFF = (8.0, -2.5)
TOFF = (1.0, 0.5, 86400.0, -60 * 365.25 * 86400)
NMAX = {"quick": 4, "thorough": 5}

META = dict(
    rule="for every (test, relation) of the statement: every series of length 0..N over the test's dyadic alphabet x 1-3 "
         "parameter sets is executed, then re-executed under every transformation: value offsets {+8,-2.5}, negation (also with the series carried by a masked array whose masked slots keep a fixed finite payload), "
         "time shifts {+1s,+0.5s,+1d,-60y (pre-1970)} (climatology / time-valued valid_range with their absolute spans "
         "shifted too), joint data+span shifts (gross/valid range), reversal (spike) - flags must be identical (reversed "
         "for reversal); and under EVERY single-point perturbation (each position x each other symbol incl. missing) - "
         "flags outside the statement's neighbourhood must be unchanged. states = executions, transitions = "
         "(base, transformed) pairs compared. Scale: 1500-point records with offsets 2^30 / -2^31 and perturbations at block-edge positions; a 4000-point plateau record with flat-line windows of 300 / 600 samples. non-trivial = transformed execution (not the base run)",
    bounds={"quick": {"max_len": 4}, "thorough": {"max_len": 5}},
    not_judged=["std-based attenuation cases whose spread is within 1e-6 of a threshold (float std is only approximately shift invariant)",
                "whole-series attenuated_signal_test locality (not local by definition)"],
    assumptions=["dyadic values make the transformations exact in float64"],
)

SIG4 = (0.0, 1.0, 3.0, NAN)
SIG5 = (0.0, 1.0, 3.0, 4.0, NAN)
POS = ((0.0, 0.0), (1.0, 0.0), (0.0, 6.0), (11.0, 0.0), (NAN, 0.0), (NAN, NAN))

# test -> dict(alphabet, cfgs, rel=set of relations, nbhd=locality kind)
T = {
    "spike_test": dict(al=SIG5, cfgs=[dict(suspect_threshold=1, fail_threshold=2), dict(suspect_threshold=0.5, fail_threshold=1.5, method="differential"),
                                      # thresholds in the other order (fail below suspect), only one of them, and zero
                                      dict(suspect_threshold=4, fail_threshold=0.5), dict(suspect_threshold=3.5, fail_threshold=1, method="differential"),
                                      dict(fail_threshold=1.5), dict(suspect_threshold=0)],
                       rel=("voff", "neg", "rev", "local"), nb="pm1"),
    "rate_of_change_test": dict(al=SIG4, cfgs=[dict(threshold=0.5), dict(threshold=1 / 60)], rel=("voff", "neg", "toff", "local"), nb="succ"),
    "flat_line_test": dict(al=SIG4, cfgs=[dict(suspect_threshold=60, fail_threshold=120, tolerance=2), dict(suspect_threshold=120, fail_threshold=60, tolerance=1)],
                           rel=("voff", "neg", "toff", "local"), nb="window_flat", nextra=1),
    "attenuated_signal_test": dict(al=SIG4, cfgs=[dict(suspect_threshold=1.3, fail_threshold=0.6, test_period=120),
                                                  dict(suspect_threshold=1.3, fail_threshold=0.6, test_period=180, check_type="range", min_obs=2),
                                                  dict(suspect_threshold=1.3, fail_threshold=0.6), dict(suspect_threshold=2.5, fail_threshold=1.3, check_type="range"),
                                                  # thresholds exactly ON attainable window ranges (1, 2, 3): equality must survive every transformation
                                                  dict(suspect_threshold=3, fail_threshold=1, test_period=180, check_type="range"),
                                                  dict(suspect_threshold=2, fail_threshold=2, test_period=120, check_type="range", min_obs=1)],
                                   rel=("voff", "neg", "toff", "local"), nb="window_att"),
    "density_inversion_test": dict(al=(0.0, 1.0, 2.0, NAN), cfgs=[dict(suspect_threshold=-0.5, fail_threshold=-1), dict(suspect_threshold=0.5),
                                                                  dict(suspect_threshold=-1.5, fail_threshold=-0.5), dict(fail_threshold=0)],
                                   rel=("voff", "local"), nb="pm1"),
    "speed_test": dict(al=POS, cfgs=[dict(suspect_threshold=10, fail_threshold=1000)], rel=("toff", "local"), nb="succ"),
    "location_test": dict(al=POS, cfgs=[dict(bbox=[-10, -5, 10, 5]), dict(bbox=[-10, -5, 10, 5], range_max=200_000), dict(range_max=100)],
                          rel=("local",), nb="loc"),
    "gross_range_test": dict(al=(-1.0, 0.0, 1.5, 3.0, 4.0, NAN), cfgs=[dict(fail_span=[0, 3], suspect_span=[1, 2]), dict(fail_span=[0, 3])],
                             rel=("joint", "local"), nb="self"),
    "valid_range_test": dict(al=(-1.0, 0.0, 1.5, 3.0, 4.0, NAN), cfgs=[dict(valid_span=[0, 3]), dict(valid_span=[0, 3], start_inclusive=False, end_inclusive=True)],
                             rel=("joint", "local"), nb="self"),
    "climatology_test": dict(al=(4.0, 12.0, 15.0, 22.0, NAN), cfgs=[dict(config=[dict(tspan=["2020-01-01T00:01:00", "2020-01-01T00:02:30"], vspan=[10, 20], fspan=[5, 21])]),
                                                                     dict(config=[dict(tspan=["2020-01-01T00:00:00", "2020-01-01T00:01:00"], vspan=[10, 20], zspan=[0, 6]),
                                                                                  dict(tspan=["2020-01-01T00:02:00", "2020-01-01T00:09:00"], vspan=[14, 16])])],
                             rel=("toff_abs", "local"), nb="self"),
    "valid_range_time": dict(al=(0, 60, 120, 180, 240, "NaT"), cfgs=[dict(lo=60, hi=180), dict(lo=60, hi=180, start_inclusive=False, end_inclusive=True)],
                             rel=("toff_vt",), nb="self"),
}


def logical(name, x, step=None):
    n = len(x)
    spec = G.SPECS.get(name)
    d = dict(x=list(x))
    if name == "valid_range_time":
        return d
    if spec["kind"] == "position":
        d = dict(lon=[p[0] for p in x], lat=[p[1] for p in x])
    if "t" in spec["needs"]:
        if step == "irr":   # irregular sampling: an outage and a burst inside ordinary 60 s steps
            d["secs"] = alpha.times_from_gaps([(60, 160, 10, 60, 200)[i % 5] for i in range(max(n - 1, 0))])[:n] if n else []
        else:
            d["secs"] = alpha.regular_secs(n) if step is None else [alpha.T0 + step * i for i in range(n)]
    if "z" in spec["needs"]:
        d["z"] = [5.0 + (i % 3) for i in range(n)] if name == "climatology_test" else [10.0 + i * (1 if i < 3 else -1) for i in range(n)]
    return d


def tshift(secs, off):
    return [s + off for s in secs]


def dt64f(secs):
    """float seconds -> datetime64[ns] exactly (offsets are multiples of 0.5 s)."""
    return np.array([int(round(s * 2)) * 500_000_000 for s in secs], dtype="int64").astype("datetime64[ns]")


def run(name, cfg, lg):
    if name == "valid_range_time":
        from ioos_qc import axds

        off = lg.get("toff", 0.0)
        mk = lambda v: np.datetime64("NaT", "ns") if v == "NaT" else dt64f([alpha.T0 + v + off])[0]
        inp = np.array([mk(v) for v in lg["x"]], dtype="datetime64[ns]")
        kw = {k: v for k, v in cfg.items() if k not in ("lo", "hi")}
        out = alpha.call(axds.valid_range_test, inp, (mk(cfg["lo"]), mk(cfg["hi"])), **kw)
    else:
        spec = G.SPECS[name]
        c = cfg
        if name == "climatology_test" and lg.get("toff"):
            import pandas as pd

            c = dict(config=[dict(m, tspan=[str(pd.Timestamp(s) + pd.Timedelta(seconds=lg["toff"])) for s in m["tspan"]]) for m in cfg["config"]])
        if spec["kind"] == "position":
            n = len(lg["lon"])
            fn, kw, _ = G.build(name, c, list(range(n)), "nd", secs=[0] * n, lon=lg["lon"], lat=lg["lat"])
        else:
            fn, kw, _ = G.build(name, c, lg["x"], "nd", z=lg.get("z"), secs=[0] * len(lg["x"]))
            if lg.get("carrier") in ("u2", "i1"):
                # narrow integer storage: values held as uint16 / int8 (transformations keep them inside the type's range)
                kw["inp"] = np.array([int(v) for v in lg["x"]], dtype="uint16" if lg["carrier"] == "u2" else "int8")
            if lg.get("carrier") == "ma":
                # masked array whose masked slots keep the SAME finite payload whatever the transformation
                miss = [v in (NAN, None) for v in lg["x"]]
                kw["inp"] = np.ma.MaskedArray(np.array([p if m else float(v) for v, m, p in zip(lg["x"], miss, lg["payload"])]), mask=miss)
        if "tinp" in kw:
            kw["tinp"] = dt64f(lg["secs"])
        out = alpha.call(fn, **kw)
    if isinstance(out, alpha.Raised):
        return out
    vals, _, _ = alpha.flags_of(out)
    return vals


def sym_add(x, c):
    return [s if s in (NAN, None) else s + c for s in x]


def spreads_near_threshold(cfg, lg):
    if cfg.get("check_type", "std") != "std":
        return False
    x = alpha.ref(lg["x"])
    secs = lg["secs"]
    thr = (cfg["suspect_threshold"], cfg["fail_threshold"])
    sp = []
    if cfg.get("test_period"):
        for i in range(len(x)):
            w = [x[j] for j in range(len(x)) if secs[i] - cfg["test_period"] < secs[j] <= secs[i] and x[j] is not None]
            s = R._sstd(w) if len(w) else None
            if s is not None:
                sp.append(s)
    else:
        w = [v for v in x if v is not None]
        if w:
            sp.append(R._pstd(w))
    return any(abs(s - t) < 1e-6 for s in sp for t in thr)


def neighbourhood(name, cfg, lg, i, n):
    nb = T[name]["nb"]
    if nb == "self":
        return {i}
    if nb == "pm1":
        return {i - 1, i, i + 1}
    if nb == "succ":
        return {i, i + 1}
    if nb == "loc":
        return {i, i + 1} if "range_max" in cfg else {i}
    if nb == "window_flat":
        k = max(int(cfg["suspect_threshold"] // 60), int(cfg["fail_threshold"] // 60))
        return set(range(i, i + k + 1))
    if nb == "window_att":
        secs = lg["secs"]
        return {j for j in range(n) if j >= i and secs[j] - secs[i] < cfg["test_period"]} | {i}
    raise KeyError(nb)


def variants(name, cfg, lg):
    """yield (relation label, transformed logical, expectation kind, payload)"""
    rel = T[name]["rel"]
    if lg.get("long") and not lg.get("perturb_at"):
        rel = tuple(r for r in rel if r != "local")
    if lg.get("only") == "voff_extra":
        # narrow integer carriers: only the listed offsets (the others / negation would leave the type's range)
        for c in lg.get("voff_extra", ()):
            if all(s in (NAN, None) or (0 <= s + c <= 65535 if lg["carrier"] == "u2" else -128 <= s + c <= 127) for s in lg["x"]):
                yield f"value-offset{c:+g}", dict(lg, x=sym_add(lg["x"], c)), "same", None
        return
    if "voff" in rel:
        for c in VOFF + tuple(lg.get("voff_extra", ())):
            yield f"value-offset{c:+g}", dict(lg, x=sym_add(lg["x"], c)), "same", None
    if "neg" in rel:
        yield "negation", dict(lg, x=[s if s in (NAN, None) else -s for s in lg["x"]]), "same", None
    if "rev" in rel:
        yield "reversal", dict(lg, x=list(reversed(lg["x"]))), "reversed", None
    if "toff" in rel:
        for o in TOFF:
            yield f"time-shift{o:+g}s", dict(lg, secs=tshift(lg["secs"], o)), "same", None
    if "toff_abs" in rel:
        for o in TOFF:
            yield f"time+span-shift{o:+g}s", dict(lg, secs=tshift(lg["secs"], o), toff=o), "same", None
    if "toff_vt" in rel:
        for o in TOFF:
            yield f"time+span-shift{o:+g}s", dict(lg, toff=o), "same", None
    if "joint" in rel:
        for c in VOFF:
            key = "valid_span" if name == "valid_range_test" else None
            c2 = dict(cfg)
            for k in ("fail_span", "suspect_span", "valid_span"):
                if k in c2:
                    c2[k] = [v + c for v in c2[k]]
            yield f"data+span-shift{c:+g}", dict(lg, x=sym_add(lg["x"], c), _cfg=c2), "same", None
    if "local" in rel and not (name == "attenuated_signal_test" and not cfg.get("test_period")):
        pos = G.SPECS[name]["kind"] == "position"
        n = len(lg["lon"]) if pos else len(lg["x"])
        al = T[name]["al"]
        for i in (lg.get("perturb_at") or range(n)):
            cur = (lg["lon"][i], lg["lat"][i]) if pos else lg["x"][i]
            for s in (al if not lg.get("perturb_at") else [a for a in al if a != cur][:2]):
                if s == cur:
                    continue
                if pos:
                    lon, lat = list(lg["lon"]), list(lg["lat"])
                    lon[i], lat[i] = s
                    yield "perturb", dict(lg, lon=lon, lat=lat), "local", i
                else:
                    x = list(lg["x"])
                    x[i] = s
                    yield "perturb", dict(lg, x=x), "local", i


def judge_variant(name, cfg, lg, base, label, lg2, kind, payload):
    cfg2 = lg2.pop("_cfg", cfg) if "_cfg" in lg2 else cfg
    res = run(name, cfg2, lg2)
    if isinstance(res, alpha.Raised):
        return V(f"{PROP}|{name}|{label.split('+')[0] if kind=='local' else label}|symptom={res!r}", f"{name} raised {res.name} under {label}: {res.msg}", base, repr(res)), res
    if kind == "same" and res != base:
        return V(f"{PROP}|{name}|{label}|symptom=flags-change", f"{name}: flags change under {label}", base, res), res
    if kind == "reversed" and res != list(reversed(base)):
        return V(f"{PROP}|{name}|{label}|symptom=flags-not-mirrored", f"{name}: reversed series does not give reversed flags", list(reversed(base)), res), res
    if kind == "local":
        n = len(base)
        nb = neighbourhood(name, cfg, lg, payload, n)
        for j in range(n):
            if j not in nb and res[j] != base[j]:
                return V(f"{PROP}|{name}|perturb|symptom=non-local:offset{j - payload:+d}",
                         f"{name}: changing observation {payload} changed the flag of point {j} (outside the neighbourhood)", base, res), res
    return None, res


def check_series(name, cfg, lg):
    base = run(name, cfg, lg)
    out = []
    nvar = 0
    if isinstance(base, alpha.Raised):
        return [(V(f"{PROP}|{name}|base|symptom={base!r}", f"{name} raised {base.name}: {base.msg}", None, repr(base)), "base", lg)], 1, 0, [base]
    skipped = 0
    results = [base]
    near = name == "attenuated_signal_test" and spreads_near_threshold(cfg, lg)
    for label, lg2, kind, payload in variants(name, cfg, lg):
        if near and kind == "same":
            skipped += 1
            continue
        lg2c = dict(lg2)
        v, res = judge_variant(name, cfg, lg, base, label, lg2c, kind, payload)
        nvar += 1
        results.append(res)
        if v:
            out.append((v, label, lg2))
    return out, 1 + nvar, skipped, results


def check_case(case):
    """replay: one base series + one variant."""
    name, cfg, lg, lg2 = case["fn"], case["cfg"], case["base"], dict(case["variant"])
    base = run(name, cfg, lg)
    if isinstance(base, alpha.Raised):
        return [V(f"{PROP}|{name}|base|symptom={base!r}", f"{name} raised {base.name}: {base.msg}", None, repr(base))], True, None, 0
    v, res = judge_variant(name, cfg, lg, base, case["label"], lg2, case["kind"], case.get("payload"))
    return ([v] if v else []), True, None, 0


def replay(case):
    return check_case(case)[0]


def xl_cases(name):
    """very long records: (series, cfg, positions to perturb, extra value offsets)"""
    big = (float(2 ** 30), -float(2 ** 31))
    if name == "flat_line_test":
        from .c11 import plateaus

        x = plateaus(4000, [300, 600])
        starts = [i for i in range(1, len(x)) if x[i] != x[i - 1]][:40:4]
        yield x, dict(suspect_threshold=18000, fail_threshold=36000, tolerance=2), sorted({0, 1000, 1001, 2000, 3398, 3999, *starts}), big
        yield list(alpha.xl(SIG4, 1500, 3)), T[name]["cfgs"][0], [0, 1, 700, 1023, 1024, 1499], big
    elif name == "attenuated_signal_test":
        x = list(alpha.xl(SIG4, 1500, 3))
        yield x, T[name]["cfgs"][2], None, big          # whole-series std
        yield x, T[name]["cfgs"][3], None, big          # whole-series range
        yield x, T[name]["cfgs"][1], [0, 1, 700, 1023, 1024, 1499], big   # windowed range (exact)
        yield x, T[name]["cfgs"][0], [0, 1, 700, 1023, 1024, 1499], ()    # windowed std: small offsets only
        # quarter-grid records whose window ranges land exactly on the thresholds (1.0, 0.5), lengths that are not powers of two
        for ln in (13, 37, 150, 1501):
            xq = list(alpha.xl((0.0, 0.25, 0.5, 1.0, 1.25, 3.0, 0.75), ln, 3))
            yield xq, dict(suspect_threshold=1.0, fail_threshold=0.5, test_period=180, check_type="range"), [0, 1, ln // 2, ln - 2], (404.0, -1024.25, 0.125)
            yield xq, dict(suspect_threshold=0.75, fail_threshold=0.25, test_period=120, check_type="range", min_obs=2), [0, ln // 3], (404.0, -7.75)
    elif name in ("spike_test", "rate_of_change_test", "density_inversion_test", "gross_range_test", "valid_range_test"):
        if name in ("spike_test", "rate_of_change_test"):
            # counts stored as uint16 near 40000 (sums of neighbours exceed the type) and as int8 near 100
            for car, base, offs in (("u2", 40000.0, (-20000.0, 20000.0, -39990.0)), ("i1", 100.0, (-90.0, -200.0, 20.0))):
                for seq in alpha.all_seqs((0.0, 1.0, 3.0, 4.0), 3, 4):
                    yield [base + v for v in seq], T[name]["cfgs"][0], None, offs, car
        x = list(alpha.xl(tuple(T[name]["al"]), 1500, 3))
        for cfg in T[name]["cfgs"]:
            yield x, cfg, [0, 1, 511, 512, 1023, 1024, 1025, 1498, 1499], big
    elif name in ("speed_test", "location_test"):
        x = list(alpha.xl(POS, 1300, 2))
        for cfg in T[name]["cfgs"]:
            yield x, cfg, [0, 1, 499, 500, 501, 1023, 1024, 1299], ()


def tasks(tier):
    ts = []
    for name, spec in T.items():
        for ci in range(len(spec["cfgs"])):
            for first in range(len(spec["al"])):
                ts.append((name, ci, first, NMAX[tier] + spec.get("nextra", 0)))
        ts.append((name, -1, -1, 0))
    return ts


def run_task(task, acc):
    name, ci, first, n = task
    spec = T[name]
    if ci < 0:
        series = [[], alpha.debruijn(tuple(spec["al"]), 3) * 3]
        cfgs = spec["cfgs"]
        if name == "attenuated_signal_test":
            # every length-5 record on a half / quarter grid with thresholds exactly on attainable window ranges
            qcfg = dict(suspect_threshold=1.0, fail_threshold=0.5, test_period=180, check_type="range")
            for xq in itertools.product((0.0, 0.25, 0.5, 1.0), repeat=5):
                _run_one(acc, name, qcfg, logical(name, list(xq)))
        for item in xl_cases(name):
            x, cfg, perturb_at, voff_extra = item[:4]
            lg = logical(name, list(x))
            lg["long"] = True
            if len(item) > 4:
                lg["carrier"] = item[4]
                lg["only"] = "voff_extra"
            if perturb_at:
                lg["perturb_at"] = perturb_at
            if voff_extra:
                lg["voff_extra"] = list(voff_extra)
            _run_one(acc, name, cfg, lg)
    else:
        series = ([spec["al"][first], *rest] for k in range(1, n + 1) for rest in itertools.product(spec["al"], repeat=k - 1))
        cfgs = [spec["cfgs"][ci]]
    for x in series:
      variants_ = [(None, None)] + ([(1.5, None), (2.25, None)] if name == "rate_of_change_test" else [])
      if name in ("attenuated_signal_test", "rate_of_change_test", "speed_test") and len(x) >= 3:
          variants_.append(("irr", None))
      if "voff" in spec["rel"] and any(v == NAN for v in x) and len(x) <= 4:
          variants_.append((None, "ma"))
      for step, carrier in variants_:
        lg = logical(name, list(x), step)
        if len(x) > 20:
            lg["long"] = True
        if carrier:
            lg["carrier"] = carrier
            # the payload hidden under each masked slot: the nearest present value of the BASE series (so the base
            # looks flat to code that reads through the mask), kept fixed under every transformation
            xs = list(x)
            pay = []
            for i, v in enumerate(xs):
                near = [xs[j] for j in list(range(i - 1, -1, -1)) + list(range(i + 1, len(xs))) if xs[j] not in (NAN, None)]
                pay.append(float(near[0]) if near else 0.0)
            lg["payload"] = pay
        for cfg in cfgs:
            _run_one(acc, name, cfg, lg)


def _run_one(acc, name, cfg, lg):
    if True:
        if True:
            found, nexec, skipped, results = check_series(name, cfg, lg)
            acc.visit(cid(dict(fn=name, cfg=cfg, base=lg)), False, None, edges=nexec - 1, evals=nexec,
                      sample=dict(fn=name, cfg=cfg, base=lg, variants_executed=nexec - 1))
            acc.states += nexec - 1
            acc.nontrivial += nexec - 1
            acc.skip(skipped)
            for r in results:
                if isinstance(r, list) and not acc.obs_capped:
                    acc.obs.add(hash(tuple(r)))
            for v, label, lg2 in found:
                kind = "local" if label == "perturb" else ("reversed" if label == "reversal" else "same")
                payload = None
                if kind == "local":
                    a = lg.get("x") or list(zip(lg["lon"], lg["lat"]))
                    b = lg2.get("x") or list(zip(lg2["lon"], lg2["lat"]))
                    payload = next(i for i, (p, q) in enumerate(zip(a, b)) if p != q and not (p != p and q != q))
                case = dict(fn=name, cfg=cfg, base=lg, variant=lg2, label=label, kind=kind, payload=payload)
                acc.violation(v["signature"], v["what"], case, v.get("expected"), v.get("observed"))
