"""C06 - collect_results puts every context's flags back on the right input rows (event graph)."""
from __future__ import annotations

import itertools

import numpy as np

from mc import alpha

from . import streams_common as S
from .common import V, run_cases

PROP = "C06"
BUDGET = {"quick": 900, "thorough": 3400}
NROWS = {"quick": 4, "thorough": 5}
DEPTH = {"quick": 3, "thorough": 4}
KEYS = (("s1", "tA"), ("s1", "tB"), ("s2", "tA"))
FLAGSEQ = (1, 3, 4, 9)

META = dict(
    rule="event graph: a state is the history (sequence) of ContextResults handed to the real collect_results (batch "
         "API, so every state is rebuilt from its history). Event menu for n rows: every contiguous window [i,j) incl. "
         "the empty and the all-covering one x (stream,test) key in {(s1,tA),(s1,tB),(s2,tA)}; per-history axis mode "
         "{time/depth/position arrays present, absent (size 0, as the streams deliver them)}; flags are a function of "
         "(row, key) so every row/flag pair is distinguishable. EVERY sequence of <=d events whose same-key windows "
         "are pairwise disjoint is executed in every order through how='list' and how='dict', + events carrying two "
         "CallResults, + the real ContextResults of PandasStream/NumpyStream runs over disjoint windows in every "
         "permutation of their yield order. Oracle (order-free, computed from the event SET): one result per key; "
         "covered row -> that event's flag, uncovered -> masked (list) / UNKNOWN (dict); data/tinp/zinp/lat/lon equal "
         "the source on covered rows; list then dict collected from the same ContextResult objects. Equality with the order-free reference on "
         "every history is confluence. Scale: 1500-row collections tiled by 4-5 windows in every order, stream runs on 300 / 1500 rows (sorted, shuffled, after an earlier run on another table of the same size), every context with its own probe code. non-trivial = at least two events",
    bounds={"quick": {"rows": 4, "events": 3}, "thorough": {"rows": 5, "events": 4}},
    not_judged=["values of data/axis arrays on rows no context covered", "overlapping windows for the same key"],
    assumptions=[],
)


def windows(n):
    ws = [(0, 0)]
    for i in range(n):
        for j in range(i + 1, n + 1):
            ws.append((i, j))
    return ws


def src(n):
    return dict(
        s1=[100.0 + i for i in range(n)], s2=[200.0 + i for i in range(n)],
        tinp=[S.T0 + i * S.DAY for i in range(n)], zinp=[5.0 * i for i in range(n)],
        lat=[float(i) for i in range(n)], lon=[10.0 + i for i in range(n)],
    )


def flag_of(row, key):
    return FLAGSEQ[(row + KEYS.index(tuple(key)) * 2 + (row // 2)) % 4]


def mk_event(n, ev, axes):
    """ev = dict(w=[i,j], keys=[[stream,test],...]) -> ContextResult"""
    from ioos_qc import qartod
    from ioos_qc.results import CallResult, ContextResult

    i, j = ev["w"]
    rows = list(range(i, j))
    s = src(n)
    stream = ev["keys"][0][0]
    mask = np.zeros(n, dtype=bool)
    mask[i:j] = True
    crs = [CallResult(package="qartod", test=k[1], function=qartod.gross_range_test,
                      results=np.ma.MaskedArray(np.array([flag_of(r, k) for r in rows], dtype="uint8"))) for k in ev["keys"]]
    f = lambda name: np.array([s[name][r] for r in rows], dtype="float64")
    if axes == "all":
        t = alpha.dt64([s["tinp"][r] for r in rows]) if rows else np.array([], dtype="datetime64[ns]")
        ax = dict(tinp=t, zinp=f("zinp"), lat=f("lat"), lon=f("lon"))
    else:
        ax = dict(tinp=np.array([], dtype="datetime64[ns]"), zinp=np.array([], dtype="float64"),
                  lat=np.array([], dtype="float64"), lon=np.array([], dtype="float64"))
    return ContextResult(stream_id=stream, results=crs, subset_indexes=mask, data=f(stream), **ax)


def snapshot(cr):
    out = [cr.subset_indexes.tobytes(), cr.data.tobytes()]
    for a in (cr.tinp, cr.zinp, cr.lat, cr.lon):
        out.append(a.tobytes())
    for r in cr.results:
        out.append(np.ma.getdata(r.results).tobytes())
        out.append(np.ma.getmaskarray(r.results).tobytes())
    return out


def reference(n, events):
    """order-free: key -> per-row flag or None."""
    ref = {}
    for ev in events:
        for k in ev["keys"]:
            rows = ref.setdefault(tuple(k), [None] * n)
            for r in range(*ev["w"]):
                rows[r] = flag_of(r, k)
    return ref


def judge_overlap(n, events, axes, lst, dct):
    """windows that overlap: on a row covered by several contexts any of their flags is acceptable (the statement does not
    rank them); everything else - completion, one result per key, uncovered rows, data / axes on covered rows - is judged"""
    vs = []
    acc = {}
    for ev in events:
        for k in ev["keys"]:
            rows = acc.setdefault(tuple(k), [set() for _ in range(n)])
            for r in range(*ev["w"]):
                rows[r].add(flag_of(r, k))
    s = src(n)
    shape = "+".join("all" if tuple(e["w"]) == (0, n) else "partial" for e in events)
    if isinstance(lst, alpha.Raised):
        vs.append(V(f"{PROP}|list|overlap={shape}|symptom=raises:{lst.name}", f"collect_results(list) raised {lst.name} on overlapping windows ({shape}): {lst.msg}", None, repr(lst)))
    else:
        seen = {(c.stream_id, c.test): c for c in lst}
        if set(seen) != set(acc) or len(lst) != len(seen):
            vs.append(V(f"{PROP}|list|overlap|symptom=key-set", "collected keys differ from the configured (stream,test) set", sorted(map(list, acc)), sorted(map(list, seen))))
        for key, rows in acc.items():
            c = seen.get(key)
            if c is None:
                continue
            vals, _, _ = alpha.flags_of(c.results)
            if vals is None or len(vals) != n or any((v is not None) != bool(a) or (a and v not in a) for v, a in zip(vals, rows)):
                vs.append(V(f"{PROP}|list|overlap={shape}|symptom=results", f"list form: result of {key} is {vals}, acceptable per row {[sorted(a) for a in rows]}", [sorted(a) for a in rows], vals))
            arr = c.data
            try:
                got = [None if np.ma.getmaskarray(arr)[i] else float(np.ma.getdata(arr)[i]) for i in range(len(arr))]
            except Exception as e:  # noqa: BLE001
                got = repr(e)
            if not isinstance(got, list) or len(got) != n or any(a and g != float(s[key[0]][i]) for i, (g, a) in enumerate(zip(got, rows))):
                vs.append(V(f"{PROP}|list|overlap={shape}|symptom=data:wrong-on-covered-rows", f"list form: collected data of {key} is {got}", [float(v) for v in s[key[0]]], got))
    if isinstance(dct, alpha.Raised):
        vs.append(V(f"{PROP}|dict|overlap={shape}|symptom=raises:{dct.name}", f"collect_results(dict) raised {dct.name} on overlapping windows: {dct.msg}", None, repr(dct)))
    else:
        flat = {(sid, t): arr for sid, mods in dct.items() for mod, tests in mods.items() for t, arr in tests.items()}
        for key, rows in acc.items():
            vals = alpha.flags_of(flat[key])[0] if key in flat else None
            if vals is None or len(vals) != n or any((v not in a) if a else v != 2 for v, a in zip(vals, rows)):
                vs.append(V(f"{PROP}|dict|overlap={shape}|symptom=results", f"dict form: result of {key} is {vals}", [sorted(a) or [2] for a in rows], vals))
    return vs


def judge_collected(n, events, axes, lst, dct, label=""):
    if not disjoint_ok(events):
        return judge_overlap(n, events, axes, lst, dct)
    vs = []
    ref = reference(n, events)
    s = src(n)
    # ---- list form
    if isinstance(lst, alpha.Raised):
        kinds = "+".join(sorted({"empty" if e["w"][0] == e["w"][1] else ("all" if e["w"] == [0, n] or tuple(e["w"]) == (0, n) else "partial") for e in events}))
        vs.append(V(f"{PROP}|list|axes={axes}|windows={kinds}|symptom=raises:{lst.name}", f"collect_results(list) raised {lst.name}: {lst.msg}", None, repr(lst)))
    else:
        seen = {}
        for c in lst:
            key = (c.stream_id, c.test)
            if key in seen:
                vs.append(V(f"{PROP}|list|symptom=duplicate-result", f"two CollectedResults for {key}", None, str(key)))
            seen[key] = c
        if set(seen) != set(ref):
            vs.append(V(f"{PROP}|list|symptom=key-set", "collected keys differ from the configured (stream,test) set", sorted(map(list, ref)), sorted(map(list, seen))))
        for key, rows in ref.items():
            c = seen.get(key)
            if c is None:
                continue
            vals, _, _ = alpha.flags_of(c.results)
            if vals != rows:
                bad = next((i for i in range(min(len(vals or []), n)) if vals[i] != rows[i]), 0) if vals and len(vals) == n else -1
                what = "length" if bad < 0 else ("uncovered-row-not-masked" if rows[bad] is None else ("covered-row-masked" if vals[bad] is None else "wrong-flag"))
                vs.append(V(f"{PROP}|list|symptom=results:{what}", f"list form: result of {key} is {vals}, expected {rows} (None=masked)", rows, vals))
            for name, srcname in (("data", key[0]), ("tinp", "tinp"), ("zinp", "zinp"), ("lat", "lat"), ("lon", "lon")):
                if name != "data" and axes != "all":
                    continue
                arr = getattr(c, name)
                try:
                    a = np.ma.getdata(arr)
                    m = np.ma.getmaskarray(arr)
                    if name == "tinp":
                        a = a.astype("datetime64[s]").astype("int64")
                    got = [None if m[i] else float(a[i]) for i in range(len(a))]
                except Exception as e:  # noqa: BLE001
                    vs.append(V(f"{PROP}|list|symptom={name}:unreadable", f"collected {name} of {key} unusable: {e!r}", None, repr(arr)))
                    continue
                exp = [float(s[srcname][i]) if rows[i] is not None else "any" for i in range(n)]
                ok = len(got) == n and all(e == "any" or g == e for g, e in zip(got, exp))
                # only the last CallResult of an event gets its axes stored; judge that too (statement: every result)
                if not ok:
                    vs.append(V(f"{PROP}|list|axes={axes}|symptom={name}:wrong-on-covered-rows", f"list form: collected {name} of {key} is {got}, source on covered rows {exp}", exp, got))
    # ---- dict form
    if isinstance(dct, alpha.Raised):
        vs.append(V(f"{PROP}|dict|symptom=raises:{dct.name}", f"collect_results(dict) raised {dct.name}: {dct.msg}", None, repr(dct)))
    else:
        flat = {}
        for sid, mods in dct.items():
            for mod, tests in mods.items():
                for t, arr in tests.items():
                    flat[(sid, t)] = arr
        if set(flat) != set(ref):
            vs.append(V(f"{PROP}|dict|symptom=key-set", "dict keys differ from the configured (stream,test) set", sorted(map(list, ref)), sorted(map(list, flat))))
        for key, rows in ref.items():
            if key not in flat:
                continue
            vals, _, _ = alpha.flags_of(flat[key])
            exp = [2 if r is None else r for r in rows]
            if vals != exp:
                vs.append(V(f"{PROP}|dict|symptom=results", f"dict form: result of {key} is {vals}, expected {exp}", exp, vals))
    return vs


def check_case(case):
    from ioos_qc.results import collect_results

    if case.get("kind") == "stream":
        return check_stream_case(case)
    n, axes, events = case["n"], case["axes"], case["events"]
    evs = [mk_event(n, e, axes) for e in events]
    snaps = [snapshot(e) for e in evs]
    lst = alpha.call(collect_results, evs, how="list")
    # the dict form is collected from the SAME ContextResult objects afterwards: a collector that wrote into the
    # contexts' arrays would show up as wrong dict results (modification alone is not judged)
    dct = alpha.call(collect_results, evs, how="dict")
    vs = judge_collected(n, events, axes, lst, dct)
    if [snapshot(e) for e in evs] != snaps:
        acc_note = "contexts-modified"
    obs = None
    if not isinstance(lst, alpha.Raised):
        obs = tuple(sorted((c.stream_id, c.test, tuple(alpha.flags_of(c.results)[0] or ())) for c in lst))
    return vs, len(events) >= 2, obs, 0, 2


def check_stream_overlap(case):
    """real ContextResults of a stream run whose contexts OVERLAP (an un-windowed context and a windowed one for the same
    stream and test, in both orders): collection completes; a row carries the flag of one of the contexts covering it"""
    from ioos_qc.results import collect_results

    S.install_probes()
    n = case["n"]
    tab = S.table(n, case["z"], case["ll"])
    lo, hi = S.T0 + case["cut"][0] * S.DAY, S.T0 + case["cut"][1] * S.DAY
    wide = dict(start=None, end=None, streams={"v": dict(qartod=dict(vprobe_test=dict(code=3), spike_test=dict(suspect_threshold=1, fail_threshold=5)))})
    part = dict(start=lo, end=hi, streams={"v": dict(qartod=dict(vprobe_test=dict(code=4), spike_test=dict(suspect_threshold=1, fail_threshold=5)))})
    ctxs = [wide, part] if case["order"] == "all-first" else [part, wide]
    res = alpha.call(S.run_frontend, case["fe"], tab, S.make_config(ctxs))
    sig = f"{PROP}|stream:{case['fe']}|overlap={case['order']}"
    if isinstance(res, alpha.Raised):
        return [V(f"{sig}|symptom=raises:{res.name}", f"{case['fe']} raised {res.name}: {res.msg}", None, repr(res))], True, None, 0, 1
    vs = []
    inwin = [lo <= t < hi for t in tab["time"]]
    for how in ("list", "dict"):
        got = alpha.call(collect_results, list(res), how=how)
        if isinstance(got, alpha.Raised):
            vs.append(V(f"{sig}|{how}|symptom=raises:{got.name}", f"collect_results({how}) of a run with an un-windowed and a windowed context for the same test raised {got.name}: {got.msg}", "completes", repr(got)))
            continue
        if how == "list":
            flags = {f"{c.stream_id}:{c.test}": alpha.flags_of(c.results)[0] for c in got}
        else:
            flags = {f"{s_}:{t}": alpha.flags_of(a)[0] for s_, m in got.items() for p_, ts in m.items() for t, a in ts.items()}
        pv = flags.get("v:vprobe_test")
        if pv is None or len(pv) != n or any(v not in ((3, 4) if w else (3,)) for v, w in zip(pv, inwin)):
            vs.append(V(f"{sig}|{how}|symptom=rows", f"v:vprobe_test collected as {pv}; rows inside the window may carry 3 or 4, the others 3", [[3, 4] if w else [3] for w in inwin], pv))
    return vs, True, None, 0, 3


def check_stream_case(case):
    """real ContextResults of a stream run over disjoint windows, collected in a permuted order."""
    from ioos_qc.results import collect_results

    if case.get("overlap"):
        return check_stream_overlap(case)

    S.install_probes()
    n = case["n"]
    tab = S.table(n, case["z"], case["ll"], case.get("shuffled", False))
    cuts = case["cuts"]
    mods = dict(qartod=dict(vprobe_test=dict(code=3), spike_test=dict(suspect_threshold=1, fail_threshold=5)))
    bounds = [None] + [S.T0 + c * S.DAY for c in cuts] + [None]
    if case.get("subsec"):
        # a 4 Hz record; the windows are cut at instants that are not whole seconds
        tab["time"] = [S.T0 + 0.25 * i for i in range(n)]
        bounds = [None] + [S.T0 + c for c in cuts] + [None]
    codes = (3, 1, 4, 9)
    ctxs = [dict(start=bounds[i], end=bounds[i + 1],
                 streams={"v": dict(qartod=dict(vprobe_test=dict(code=codes[i % 4]), spike_test=dict(suspect_threshold=1, fail_threshold=5))),
                          "w": dict(qartod=dict(vprobe_test=dict(code=codes[(i + 1) % 4], plain=True)))}) for i in range(len(bounds) - 1)]

    def ctx_of(t):
        return next(i for i in range(len(bounds) - 1) if (bounds[i] is None or t >= bounds[i]) and (bounds[i + 1] is None or t < bounds[i + 1]))
    want = {"v:vprobe_test": [codes[ctx_of(t) % 4] for t in tab["time"]], "w:vprobe_test": [codes[(ctx_of(t) + 1) % 4] for t in tab["time"]]}
    if case.get("axis_stream") and case["z"]:
        # the depth column is itself a tested stream
        for i, c in enumerate(ctxs):
            c["streams"]["z"] = dict(qartod=dict(vprobe_test=dict(code=codes[(i + 2) % 4])))
        want["z:vprobe_test"] = [codes[(ctx_of(t) + 2) % 4] for t in tab["time"]]
    cfgd = S.make_config(ctxs)
    if case.get("pre"):
        # an earlier run, in the same process, of the same configuration on another table of the same size
        alpha.call(S.run_frontend, case["fe"], S.table(n, case["z"], case["ll"], not case.get("shuffled", False)), S.make_config(ctxs))
    res = alpha.call(S.run_frontend, case["fe"], tab, cfgd)
    if isinstance(res, alpha.Raised):
        return [V(f"{PROP}|stream:{case['fe']}|symptom=raises:{res.name}", f"{case['fe']} raised {res.name}: {res.msg}", None, repr(res))], True, None, 0, 1
    perm = case["perm"]
    if len(perm) != len(res):
        perm = list(range(len(res)))
    ordered = [res[i] for i in perm]
    base_l = alpha.call(collect_results, list(res), how="list")
    got_l = alpha.call(collect_results, ordered, how="list")
    base_d = alpha.call(collect_results, list(res), how="dict")
    got_d = alpha.call(collect_results, ordered, how="dict")
    vs = []
    axes = ("z" if case["z"] else "") + ("ll" if case["ll"] else "") or "time-only"

    def canon_list(x):
        if isinstance(x, alpha.Raised):
            return repr(x)
        out = {}
        for c in x:
            d = dict(results=alpha.flags_of(c.results)[0])
            for name in ("data", "zinp", "lat", "lon"):
                a = getattr(c, name)
                m = np.ma.getmaskarray(a)
                d[name] = [None if m[i] else float(np.ma.getdata(a)[i]) for i in range(len(a))]
            out[f"{c.stream_id}:{c.test}"] = d
        return out

    def canon_dict(x):
        if isinstance(x, alpha.Raised):
            return repr(x)
        return {f"{s}:{t}": alpha.flags_of(a)[0] for s, m in x.items() for p, ts in m.items() for t, a in ts.items()}

    for form, b, g, canon in (("list", base_l, got_l, canon_list), ("dict", base_d, got_d, canon_dict)):
        if isinstance(g, alpha.Raised):
            vs.append(V(f"{PROP}|stream:{case['fe']}|{form}|axes={axes}|symptom=raises:{g.name}", f"collect_results({form}) of a {case['fe']} run raised {g.name}: {g.msg}", None, repr(g)))
        elif canon(b) != canon(g):
            vs.append(V(f"{PROP}|stream:{case['fe']}|{form}|symptom=order-dependent", f"collect_results({form}) depends on the order of the yielded ContextResults", canon(b), canon(g)))
    # rows: every row is covered by exactly one context and must carry the code that context's probe produces
    if not isinstance(got_d, alpha.Raised):
        cd = canon_dict(got_d)
        for key, exp in want.items():
            if cd.get(key) != exp:
                vs.append(V(f"{PROP}|stream:{case['fe']}|dict|symptom=rows-misplaced", f"{key} collected as {cd.get(key)}; every row must carry the flag of the one context covering it", exp, cd.get(key)))
    if not isinstance(got_l, alpha.Raised):
        cl0 = canon_list(got_l)
        for key, exp in want.items():
            if key in cl0 and cl0[key]["results"] != exp:
                vs.append(V(f"{PROP}|stream:{case['fe']}|list|symptom=rows-misplaced", f"{key} collected (list form) as {cl0[key]['results']}", exp, cl0[key]["results"]))
    if not isinstance(got_l, alpha.Raised):
        cl = canon_list(got_l)
        for key, col in (("v:vprobe_test", "v"), ("w:vprobe_test", "w")):
            src_ = [float(x) for x in tab[col]]
            got_ = list(cl[key]["data"]) if key in cl else None
            if case["fe"] == "numpy:ma" and got_ is not None and len(got_) > 1:
                got_[1], src_[1] = None, None   # (that row's datum is missing in the source: masked)
            if key in cl and got_ != src_:
                vs.append(V(f"{PROP}|stream:{case['fe']}|list|symptom=data-misplaced", f"collected data of {key} is {cl[key]['data']}", tab[col], cl[key]["data"]))
    return vs, True, None, 0, 4


def replay(case):
    return check_case(case)[0]


def disjoint_ok(seq):
    cover = {}
    for e in seq:
        for k in e["keys"]:
            c = cover.setdefault(tuple(k), set())
            rows = set(range(*e["w"]))
            if c & rows:
                return False
            c |= rows
    return True


def tasks(tier):
    n = NROWS[tier]
    menu = [(w, k) for w in windows(n) for k in range(len(KEYS))]
    ts = []
    for axes in ("all", "none"):
        for first in range(len(menu)):
            ts.append(("seq", n, axes, first, DEPTH[tier]))
        ts.append(("double", n, axes))
        ts.append(("overlap", n, axes))
    for axes in ("all", "none"):
        ts.append(("bigseq", 30, axes))
        ts.append(("bigseq", 1500, axes))
    for fe in ("pandas:range", "pandas:shift", "numpy:dict", "numpy:ma", "xarray:coord", "netcdf"):
        for z, ll in ((True, True), (False, False)):
            ts.append(("stream", fe, z, ll))
    return ts


def run_task(task, acc):
    kind = task[0]
    if kind == "seq":
        _, n, axes, first, depth = task
        menu = [dict(w=list(w), keys=[list(KEYS[k])]) for w in windows(n) for k in range(len(KEYS))]

        def gen():
            f = menu[first]
            for d in range(1, depth + 1):
                for rest in itertools.product(menu, repeat=d - 1):
                    seq = [f, *rest]
                    if not disjoint_ok(seq):
                        continue
                    if seq == sorted(seq, key=repr):
                        acc.bump("canonical_states(event sets)")
                    yield dict(n=n, axes=axes, events=seq)
        run_cases(acc, gen(), check_case)
    elif kind == "bigseq":
        _, n, axes = task

        def gen():
            a, b = n // 3, (5 * n) // 6
            cuts = [(0, a), (a, b), (b, n), (0, 0), (0, n)]
            part = [dict(w=list(w), keys=[list(KEYS[0])]) for w in cuts[:3]]
            other = [dict(w=[0, n], keys=[list(KEYS[2])]), dict(w=[n // 6, (2 * n) // 3], keys=[list(KEYS[1])]), dict(w=[0, 0], keys=[list(KEYS[0])])]
            if n > 1000:
                # four / five windows tiling a long series (the same key in every window)
                for edges_ in ([0, n // 5, n // 2, n - 300, n], [0, 1, 1000, 1001, 1024, n]):
                    tiles = [dict(w=[edges_[i], edges_[i + 1]], keys=[list(KEYS[0])]) for i in range(len(edges_) - 1)]
                    for p_ in itertools.permutations(tiles):
                        yield dict(n=n, axes=axes, events=list(p_))
            for p_ in itertools.permutations(part):
                for o in other:
                    for pos in range(4):
                        seq = list(p_)
                        seq.insert(pos, o)
                        yield dict(n=n, axes=axes, events=seq)
        run_cases(acc, gen(), check_case)
    elif kind == "overlap":
        _, n, axes = task

        def gen():
            ws = windows(n)
            for k in range(len(KEYS[:2])):
                for w1 in ws:
                    for w2 in ws:
                        if set(range(*w1)) & set(range(*w2)):
                            e1, e2 = dict(w=list(w1), keys=[list(KEYS[k])]), dict(w=list(w2), keys=[list(KEYS[k])])
                            yield dict(n=n, axes=axes, events=[e1, e2])
                            for w3 in ((0, n), (1, n - 1)):
                                yield dict(n=n, axes=axes, events=[e1, e2, dict(w=list(w3), keys=[list(KEYS[k])])])
        run_cases(acc, gen(), check_case)
    elif kind == "double":
        _, n, axes = task

        def gen():
            ws = windows(n)
            for w1 in ws:
                e1 = dict(w=list(w1), keys=[["s1", "tA"], ["s1", "tB"]])
                yield dict(n=n, axes=axes, events=[e1])
                for w2 in ws:
                    e2 = dict(w=list(w2), keys=[["s1", "tB"], ["s1", "tA"]])
                    if disjoint_ok([e1, e2]):
                        yield dict(n=n, axes=axes, events=[e1, e2])
                        yield dict(n=n, axes=axes, events=[e2, e1])
        run_cases(acc, gen(), check_case)
    elif kind == "stream":
        _, fe, z, ll = task

        def gen():
            for n, cuts in ((4, [2]), (4, [1, 3]), (3, [1])):
                nres = (len(cuts) + 1) * 3
                perms = itertools.permutations(range(nres)) if nres <= 6 else _some_perms(nres)
                for p in perms:
                    yield dict(kind="stream", fe=fe, n=n, z=z, ll=ll, cuts=cuts, perm=list(p))
                if fe != "xarray:var":
                    yield dict(kind="stream", fe=fe, n=n, z=z, ll=ll, cuts=cuts, perm=list(range(nres)), shuffled=True)
            if fe in ("pandas:range", "pandas:shift", "xarray:coord", "netcdf") and z:
                for n, cuts in ((4, [2]), (5, [1, 3])):
                    yield dict(kind="stream", fe=fe, n=n, z=z, ll=ll, cuts=cuts, perm=list(range((len(cuts) + 1) * 4)), axis_stream=True)
            for n, cut in ((4, (1, 3)), (5, (0, 2)), (3, (1, 2)), (4, (0, 4))):
                for order in ("all-first", "window-first"):
                    yield dict(kind="stream", fe=fe, n=n, z=z, ll=ll, overlap=True, cut=list(cut), order=order)
            for n, cuts in ((20, [0.6, 2.6, 4.1]), (9, [0.3]), (12, [1.0, 1.1])):
                nres = (len(cuts) + 1) * 3
                yield dict(kind="stream", fe=fe, n=n, z=z, ll=ll, cuts=cuts, perm=list(range(nres)), subsec=True)
                yield dict(kind="stream", fe=fe, n=n, z=z, ll=ll, cuts=cuts, perm=list(reversed(range(nres))), subsec=True)
            for n, cuts in ((300, [100, 200]), (1500, [300, 700, 1200])):
                nres = (len(cuts) + 1) * 3
                base = list(range(nres))
                for p in (base, base[::-1], base[5:] + base[:5]):
                    for sh in (False, True):
                        yield dict(kind="stream", fe=fe, n=n, z=z, ll=ll, cuts=cuts, perm=p, shuffled=sh)
                        yield dict(kind="stream", fe=fe, n=n, z=z, ll=ll, cuts=cuts, perm=p, shuffled=sh, pre=True)
        run_cases(acc, gen(), check_case)


def _some_perms(n):
    """all rotations and all adjacent transpositions and the reversal (a generating set of the orderings)."""
    base = list(range(n))
    seen = set()
    out = []
    for r in range(n):
        p = tuple(base[r:] + base[:r])
        out.append(p)
        q = tuple(reversed(p))
        out.append(q)
    for i in range(n - 1):
        p = list(base)
        p[i], p[i + 1] = p[i + 1], p[i]
        out.append(tuple(p))
    for p in out:
        if p not in seen:
            seen.add(p)
            yield p
