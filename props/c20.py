"""C20 - limit expressions evaluate correctly and statelessly; validator; generated spans."""
from __future__ import annotations

import itertools
import math
import operator
import os
import shutil
import tempfile

import numpy as np

from mc import alpha

from .common import V, run_cases

PROP = "C20"
BUDGET = {"quick": 900, "thorough": 3400}
OPS = {"+": operator.add, "-": operator.sub, "*": operator.mul, "/": operator.truediv}
PREC = {"+": 1, "-": 1, "*": 2, "/": 2}
STATS = [dict(min=-1.0, max=3.0, mean=0.5, std=2.0), dict(min=0.25, max=8.0, mean=1.5, std=0.5), dict(min=-4.0, max=-0.5, mean=-2.0, std=0.0)]
LEAVES6 = ("2", "0.5", "mean", "min", "max", "std")
LEAVES_NUM = ("1e3", "3.", "0.25", "2.5e-1", "4e+1", "10", "mean")
LEAVES4 = ("2", "0.5", "mean", "std")

META = dict(
    rule="(a) grammar: every expression tree of depth<=1 over leaves {2, 0.5, mean, min, max, std}, depth<=2 over {2, 0.5, "
         "mean, std} (thorough: depth 2 over all six leaves, depth 3 over {2, mean} with - and /), operators + - * / and "
         "unary minus, rendered with single spaces in minimal, fully parenthesised and bare-unary-minus form (\"- - min\", \"3 - - max\"), x 3 statistics tuples "
         "(negative and zero values), evaluated by the real eval_fx and compared with the tree evaluated by python "
         "operators; (b) event graph over evaluation histories on the real module-level parser stack: every history of "
         "depth<=3 (thorough 4) over 8 valid expressions + 5 failing ones (truncated, unbalanced, invalid identifier, "
         "division by zero, empty): every valid expression must evaluate, in every state, to its value in the empty "
         "history; (c) validator: every token string of length<=3 over 17 tokens (numbers, statistics, operators, "
         "parentheses, 3 rejects and the empty token, i.e. a leading / trailing / doubled space) joined by single spaces (also with the judged spec in the first / middle / last of 2-3 tests that share limit names): accepted iff every token is allowed, else ValueError; (d) "
         "creator: synthetic time-constant NetCDF-3 climatologies (2-d and 3-d, 4 cell patterns incl. NaN / negative / "
         "zero-sum) x every index-aligned bounding box x 6 date ranges (one day ... exactly one year) x 3 expression sets, + request histories on one creator (one variable config edited in place / fresh objects): spans must equal the "
         "expressions on min/max/mean/std of the in-box cells. Scale: evaluation histories of 2500 steps in one process, expression chains of 400 terms, a 5x9-cell climatology grid with sub-boxes of 16-43 cells. non-trivial = expression with an operator / history with "
         "a failing step / token string with a rejected token / box smaller than the grid",
    bounds={"quick": {"expr_depth": 2, "history_depth": 3, "token_len": 3}, "thorough": {"expr_depth": 3, "history_depth": 4, "token_len": 3}},
    not_judged=["expressions whose reference evaluation divides by zero", "tabs / other whitespace in the validator input"],
    assumptions=["relative tolerance 1e-12 for expression values, 1e-9 for generated spans (cubic spline of a constant)"],
)


# ---------------------------------------------------------------- (a) expression trees
def trees(depth, leaves, ops=("+", "-", "*", "/"), unary=True):
    """all trees of exactly `depth` and the list of all trees of smaller depth"""
    by_depth = {0: [("leaf", l) for l in leaves]}
    for d in range(1, depth + 1):
        lower = [t for k in range(d) for t in by_depth[k]]
        prev = by_depth[d - 1]
        cur = []
        if unary:
            cur.extend(("neg", t) for t in prev)
        for op in ops:
            for a in lower:
                for b in lower:
                    if a in prev or b in prev:
                        cur.append(("bin", op, a, b))
        by_depth[d] = cur
    return by_depth


def render(t, full=False, bare=False):
    """-> (string, precedence); bare=True leaves unary minus un-parenthesised where the grammar allows it
    ("- - min", "3 - - max", "2 * - std")"""
    if t[0] == "leaf":
        return t[1], 9
    if t[0] == "neg":
        s, p = render(t[1], full, bare)
        if (p < 9 and not (bare and p == 3)) or full:
            s = f"( {s} )"
        return f"- {s}", 3
    _, op, a, b = t
    sa, pa = render(a, full, bare)
    sb, pb = render(b, full, bare)
    p = PREC[op]
    if pa < p or full and pa < 9:
        sa = f"( {sa} )"
    if pb <= p or full and pb < 9 or (pb == 3 and not bare):
        sb = f"( {sb} )"
    return f"{sa} {op} {sb}", p


def evaluate(t, stats):
    if t[0] == "leaf":
        return stats[t[1]] if t[1] in stats else float(t[1])
    if t[0] == "neg":
        return -evaluate(t[1], stats)
    return OPS[t[1]](evaluate(t[2], stats), evaluate(t[3], stats))


def close(a, b, rel=1e-12):
    if a == b:
        return True
    if isinstance(a, float) and isinstance(b, float) and (math.isnan(a) or math.isnan(b)):
        return False
    return abs(a - b) <= rel * max(abs(a), abs(b))


def check_expr(case):
    from ioos_qc.config_creator import fx_parser

    stats = STATS[case["stats"]]
    try:
        exp = evaluate(case["tree"], stats)
    except ZeroDivisionError:
        alpha.call(fx_parser.eval_fx, case["fx"], stats)
        return [], False, None, 1, 1
    got = alpha.call(fx_parser.eval_fx, case["fx"], stats)
    vs = []
    opsused = "".join(sorted(set(c for c in case["fx"] if c in "+-*/()")))
    if isinstance(got, alpha.Raised):
        vs.append(V(f"{PROP}|eval_fx|symptom=raises:{got.name}", f"eval_fx({case['fx']!r}) raised {got.name}: {got.msg}", exp, repr(got)))
    elif not isinstance(got, (int, float)) or not close(float(got), float(exp)):
        vs.append(V(f"{PROP}|eval_fx|symptom=wrong-value|ops={opsused}", f"eval_fx({case['fx']!r}) = {got}, arithmetic value {exp} for {stats}", exp, got))
    return vs, case["tree"][0] != "leaf", (round(float(got), 9) if isinstance(got, (int, float)) else repr(got)), 0, 1


# ---------------------------------------------------------------- (b) histories
HVALID = ["mean + 2 * std", "( max - min ) / 2", "- mean", "2 - 0.5 - 1", "8 / 2 / 2", "min", "2 * ( mean + std ) - max", "- ( mean - 3 ) * 2"]
HBAD = ["mean +", "( 1", "foo + 1", "1 / 0", "", "2 2", "mean * * 2"]
HOPS = HVALID + HBAD[:5]
HSTATS = STATS[0]
HEXP = [4.5, 2.0, -0.5, 0.5, 2.0, -1.0, 2.0, 5.0]


def check_history(case):
    import importlib

    from ioos_qc.config_creator import fx_parser

    # every history starts from the module's true initial state (fresh module-level objects)
    fx_parser = importlib.reload(fx_parser)
    vs = []
    obs = []
    for step, opi in enumerate(case["ops"]):
        fx = HOPS[opi]
        got = alpha.call(fx_parser.eval_fx, fx, HSTATS)
        obs.append(repr(got) if isinstance(got, alpha.Raised) else round(float(got), 9))
        if opi < len(HVALID):
            exp = HEXP[opi]
            prev = "start" if step == 0 else ("valid" if case["ops"][step - 1] < len(HVALID) else f"failed:{HOPS[case['ops'][step - 1]]!r}")
            if isinstance(got, alpha.Raised):
                vs.append(V(f"{PROP}|history|after={prev}|symptom=raises:{got.name}", f"eval_fx({fx!r}) raised {got.name} after history {[HOPS[i] for i in case['ops'][:step]]}", exp, repr(got)))
                break
            if not close(float(got), exp):
                vs.append(V(f"{PROP}|history|after={prev}|symptom=value-depends-on-history", f"eval_fx({fx!r}) = {got} after history {[HOPS[i] for i in case['ops'][:step]]}, {exp} in the empty history", exp, got))
                break
    stack_len = len(fx_parser.exprStack)
    return vs, any(i >= len(HVALID) for i in case["ops"]), tuple(obs), 0, len(case["ops"])


# ---------------------------------------------------------------- (c) validator
TOKENS = ("1", "-2.5", "1e3", "mean", "min", "max", "std", "+", "-", "*", "/", "(", ")", "foo", "^", "mean+1", "")
ALLOWED = set(TOKENS[:13])


def check_tokens(case):
    from ioos_qc.config_creator.config_creator import QcVariableConfig

    spec = " ".join(case["tokens"])
    cfg = dict(variable="temp", bbox=[0, 0, 1, 1], start_time="2001-01-01", end_time="2001-02-01",
               tests=dict(gross_range_test=dict(suspect_min="1", suspect_max="2", fail_min="0", fail_max="3")))
    pos = case.get("test_pos")
    if pos is None:
        cfg["tests"]["gross_range_test"][case["slot"]] = spec
    else:
        # several tests sharing the limit names; the judged spec sits in test number `pos`
        names = ["gross_range_test", "climatology_test", "other_span_test"][: case["ntests"]]
        cfg["tests"] = {nm: dict(suspect_min="1", suspect_max="2", fail_min="0", fail_max="3") for nm in names}
        cfg["tests"][names[pos]][case["slot"]] = spec
    got = alpha.call(QcVariableConfig, cfg)
    ok = all(t in ALLOWED for t in case["tokens"])
    vs = []
    if ok and isinstance(got, alpha.Raised):
        vs.append(V(f"{PROP}|validator|symptom=rejects-allowed:{got.name}", f"QcVariableConfig rejects {spec!r} ({got.name}: {got.msg})", "accepted", repr(got)))
    if not ok:
        bad = next(t for t in case["tokens"] if t not in ALLOWED)
        if not isinstance(got, alpha.Raised):
            vs.append(V(f"{PROP}|validator|symptom=accepts-forbidden:{bad}", f"QcVariableConfig accepts {spec!r} although {bad!r} is not allowed", "ValueError", "accepted"))
        elif got.name != "ValueError":
            vs.append(V(f"{PROP}|validator|symptom=wrong-exception:{got.name}", f"QcVariableConfig rejects {spec!r} with {got.name} instead of ValueError", "ValueError", repr(got)))
    return vs, not ok, ("acc" if not isinstance(got, alpha.Raised) else got.name), 0, 1


# ---------------------------------------------------------------- (d) creator
LATS = (0.0, 1.0, 2.0)
LONS = (10.0, 11.0, 12.0)
PATTERNS = {
    "ramp": [[1.0, 2.0, 3.0], [4.0, 5.0, 6.0], [7.0, 8.0, 9.5]],
    "nan": [[1.0, float("nan"), 3.0], [4.0, 5.0, 6.0], [7.0, 8.0, 9.5]],
    "negative": [[-3.0, -2.0, -0.5], [-4.0, -5.0, -6.0], [-7.0, -8.0, -9.5]],
    "zerosum": [[-1.0, 1.0, 2.0], [3.0, -3.0, 0.0], [0.0, 0.0, 4.0]],
}
BIG = [[(j * 9 + i) * 0.5 - 7.0 for i in range(9)] for j in range(5)]
BIG[1][3] = float("nan")
BIG[4][8] = float("nan")
PATTERNS["big"] = BIG   # 5 x 9 cells (45, two of them empty): subsets of 16 .. 43 cells
# the same logical grids stored with a descending latitude / longitude coordinate (as many gridded products are)
PATTERNS["nan_latdesc"] = PATTERNS["nan"]
PATTERNS["ramp_londesc"] = PATTERNS["ramp"]


def axes(pattern):
    g = PATTERNS[pattern]
    return tuple(float(j) for j in range(len(g))), tuple(10.0 + i for i in range(len(g[0])))


EXPRSETS = [
    dict(suspect_min="mean - std", suspect_max="mean + std", fail_min="min - 2 * std", fail_max="max + 2 * std"),
    dict(suspect_min="min", suspect_max="max", fail_min="min - ( max - min ) / 2", fail_max="max + ( max - min ) / 2"),
    dict(suspect_min="- 2 + mean", suspect_max="mean * 2 - min", fail_min="min - 1", fail_max="2 * ( max + 1 )"),
]
DATES = [("2001-03-01", "2001-03-02"), ("2001-06-01", "2001-07-01"), ("2001-12-20", "2002-01-10"), ("2001-01-02", "2002-01-01"),
         ("2001-01-01", "2002-01-01"), ("2002-06-15", "2003-06-15")]  # the last two: exactly one year (365 days, the documented maximum)
_CREATORS = {}
_TMP = None


def creator(pattern, dim):
    global _TMP
    key = (pattern, dim)
    if key in _CREATORS:
        return _CREATORS[key]
    import pandas as pd
    import xarray as xr

    from ioos_qc.config_creator.config_creator import CreatorConfig, QcConfigCreator

    if _TMP is None or not os.path.isdir(_TMP):
        _TMP = tempfile.mkdtemp(prefix="verif_c20_")
        import atexit

        atexit.register(shutil.rmtree, _TMP, True)
    times = pd.to_datetime([f"2001-{m:02d}-16" for m in range(1, 13)])
    grid = np.array(PATTERNS[pattern], dtype="float64")
    LATS, LONS = axes(pattern)
    if pattern.endswith("_latdesc"):
        grid, LATS = grid[::-1, :], tuple(reversed(LATS))
    if pattern.endswith("_londesc"):
        grid, LONS = grid[:, ::-1], tuple(reversed(LONS))
    if dim == "2d":
        data = np.broadcast_to(grid, (12, *grid.shape)).copy()
        ds = xr.Dataset({"t_an": (("time", "lat", "lon"), data)}, coords=dict(time=times, lat=list(LATS), lon=list(LONS)))
    else:
        data = np.broadcast_to(grid, (12, 2, *grid.shape)).copy()
        data[:, 1] = 1000.0  # second depth level must never be used (depth=0)
        ds = xr.Dataset({"t_an": (("time", "depth", "lat", "lon"), data)}, coords=dict(time=times, depth=[0.0, 50.0], lat=list(LATS), lon=list(LONS)))
    path = os.path.join(_TMP, f"{pattern}_{dim}.nc")
    ds.to_netcdf(path, engine="scipy")
    dsc = dict(name="clim", file_path=path, variables={"temp": "t_an"})
    if dim == "3d":
        dsc["3d"] = "depth"
    c = QcConfigCreator(CreatorConfig(dict(datasets=[dsc])))
    _CREATORS[key] = c
    return c


def check_creator(case):
    from ioos_qc.config_creator.config_creator import QcVariableConfig

    c = alpha.call(creator, case["pattern"], case["dim"])
    if isinstance(c, alpha.Raised):
        return [V(f"{PROP}|creator|symptom=setup-raises:{c.name}", f"QcConfigCreator could not load the synthetic climatology: {c.name}: {c.msg}", None, repr(c))], True, None, 0, 1
    i0, i1, j0, j1 = case["box"]
    LATS, LONS = axes(case["pattern"])
    bbox = [LONS[i0], LATS[j0], LONS[i1], LATS[j1]]
    cells = [PATTERNS[case["pattern"]][j][i] for j in range(j0, j1 + 1) for i in range(i0, i1 + 1)]
    cells = [v for v in cells if v == v]
    exprs = EXPRSETS[case["exprs"]]
    if case.get("key_order"):
        # the four limits listed in another order (alphabetical = what str(QcVariableConfig) writes, reversed, rotated)
        keys = {"alpha": sorted(exprs), "rev": list(reversed(list(exprs))), "rot": list(exprs)[1:] + list(exprs)[:1]}[case["key_order"]]
        exprs = {k: exprs[k] for k in keys}
    vc = dict(variable="temp", bbox=bbox, start_time=DATES[case["dates"]][0], end_time=DATES[case["dates"]][1], tests=dict(gross_range_test=dict(exprs)))
    got = case["_got"] if "_got" in case else alpha.call(lambda: c.create_config(QcVariableConfig(vc)))
    zero_sum = abs(sum(cells)) == 0
    sig0 = f"{PROP}|creator|dim={case['dim']}|cells-sum-to-zero={zero_sum}"
    if not cells:
        return [], False, None, 1, 1
    mean = sum(cells) / len(cells)
    stats = dict(min=min(cells), max=max(cells), mean=mean, std=math.sqrt(sum((v - mean) ** 2 for v in cells) / len(cells)))
    from ioos_qc.config_creator import fx_parser  # noqa: F401

    def ref(fx):
        # reference evaluation with python's own parser over the same tokens
        return eval(fx.replace("mean", repr(stats["mean"])).replace("min", repr(stats["min"])).replace("max", repr(stats["max"])).replace("std", repr(stats["std"])), {"__builtins__": {}})  # noqa: S307

    exp = dict(suspect_span=[ref(exprs["suspect_min"]), ref(exprs["suspect_max"])], fail_span=[ref(exprs["fail_min"]), ref(exprs["fail_max"])])
    vs = []
    if isinstance(got, alpha.Raised):
        vs.append(V(f"{sig0}|symptom=raises:{got.name}", f"create_config raised {got.name}: {got.msg}", exp, repr(got)))
        return vs, True, ("exc", got.name), 0, 1
    try:
        sec = got["temp"]["qartod"]["gross_range_test"]
        gv = dict(suspect_span=[float(v) for v in sec["suspect_span"]], fail_span=[float(v) for v in sec["fail_span"]])
    except Exception as e:  # noqa: BLE001
        vs.append(V(f"{sig0}|symptom=unexpected-structure", f"create_config returned {got!r}", exp, repr(e)))
        return vs, True, None, 0, 1
    for k in ("suspect_span", "fail_span"):
        for a, b in zip(gv[k], exp[k]):
            if not (abs(a - b) <= 1e-9 * max(1.0, abs(b))):
                vs.append(V(f"{sig0}|symptom=wrong-span", f"create_config {k} = {gv[k]}, expressions on the in-box cells give {exp[k]} (stats {stats})", exp, gv))
                break
        if vs:
            break
    full = case["box"] == [0, len(LONS) - 1, 0, len(LATS) - 1]
    return vs, not full, tuple(round(v, 6) for k in ("suspect_span", "fail_span") for v in gv[k]), 0, 1


def _cleanup_creators():
    global _TMP
    _CREATORS.clear()
    if _TMP and os.path.isdir(_TMP):
        shutil.rmtree(_TMP, True)
    _TMP = None


def check_creator_seq(case):
    """history on ONE QcConfigCreator: several requests in a row, through one QcVariableConfig edited in place or
    through fresh objects; every answer must be that of its own request"""
    import gc

    from ioos_qc.config_creator.config_creator import QcVariableConfig

    _CREATORS.pop((case["pattern"], case["dim"]), None)  # a fresh creator per history
    c = alpha.call(creator, case["pattern"], case["dim"])
    if isinstance(c, alpha.Raised):
        return [], False, None, 1, 1
    vs = []
    obs = []
    vc = None
    for step, box in enumerate(case["boxes"]):
        one = dict(kind="creator", pattern=case["pattern"], dim=case["dim"], box=box, dates=1, exprs=0)
        i0, i1, j0, j1 = box
        LATS, LONS = axes(case["pattern"])
        bbox = [LONS[i0], LATS[j0], LONS[i1], LATS[j1]]
        if case["mode"] == "edit-in-place" and vc is not None:
            vc["bbox"] = bbox
        else:
            vc = None
            gc.collect()
            vc = QcVariableConfig(dict(variable="temp", bbox=bbox, start_time=DATES[1][0], end_time=DATES[1][1], tests=dict(gross_range_test=dict(EXPRSETS[0]))))
        got = alpha.call(c.create_config, vc)
        v1, _, o, _, _ = check_creator(dict(one, _got=got))
        obs.append(o)
        for v in v1:
            v = dict(v)
            v["signature"] = v["signature"].replace("C20|creator|", f"C20|creator-sequence|{case['mode']}|request#{min(step, 1) + 1}|")
            vs.append(v)
        if vs:
            break
    return vs, True, tuple(obs), 0, len(case["boxes"])


def check_case(case):
    k = case["kind"]
    if k == "creator_seq":
        return check_creator_seq(case)
    if k == "expr":
        return check_expr(case)
    if k == "history":
        return check_history(case)
    if k == "tokens":
        return check_tokens(case)
    if k == "creator":
        return check_creator(case)
    raise KeyError(k)


def replay(case):
    return check_case(case)[0]


def tasks(tier):
    ts = [("expr", "d1", 0, 1)]
    nchunk = 16
    for c in range(nchunk):
        ts.append(("expr", "d2", c, nchunk))
    if tier == "thorough":
        for c in range(32):
            ts.append(("expr", "d2full", c, 32))
        for c in range(32):
            ts.append(("expr", "d3", c, 32))
    for first in range(len(HOPS)):
        ts.append(("history", first, 3 if tier == "quick" else 4))
    ts.append(("history_long",))
    ts.append(("expr_long",))
    for t in range(len(TOKENS)):
        ts.append(("tokens", t))
    ts.append(("tokens_multi",))
    for p in ("ramp", "zerosum"):
        ts.append(("creator_seq", p))
    for p in PATTERNS:
        for dim in ("2d", "3d"):
            ts.append(("creator", p, dim))
    return ts


def run_task(task, acc):
    kind = task[0]
    if kind == "expr":
        _, which, c, nchunk = task
        if which == "d1":
            bd = trees(1, LEAVES6)
            bn = trees(1, LEAVES_NUM)
            pool = bd[0] + bd[1] + [t for t in bn[0] + bn[1] if t not in bd[0] + bd[1]]
        elif which == "d2":
            pool = trees(2, LEAVES4)[2]
        elif which == "d2full":
            pool = trees(2, LEAVES6)[2]
        else:
            pool = trees(3, ("2", "mean"), ops=("-", "/"), unary=False)[3]

        def gen():
            for k, t in enumerate(pool):
                if k % nchunk != c:
                    continue
                forms = {render(t)[0], render(t, True)[0], render(t, False, True)[0]}
                for fx in sorted(forms):
                    for s in range(len(STATS)):
                        yield dict(kind="expr", fx=fx, tree=t, stats=s)
        run_cases(acc, gen(), check_case)
    elif kind == "history":
        _, first, depth = task

        def gen():
            for d in range(1, depth + 1):
                for rest in itertools.product(range(len(HOPS)), repeat=d - 1):
                    yield dict(kind="history", ops=[first, *rest])
        run_cases(acc, gen(), check_case)
    elif kind == "history_long":
        def gen():
            n = len(HOPS)
            for stride in (1, 3, 5, 7, 11):
                for length in (40, 200) + ((2500,) if stride in (1, 7) else ()):
                    yield dict(kind="history", ops=[(i * stride + i // n) % n for i in range(length)])
        run_cases(acc, gen(), check_case)
    elif kind == "expr_long":
        def gen():
            # long left-associative chains: ((((a op b) op c) ...) with 60 / 400 terms
            for nterms in (60, 400):
                for ops in (("+", "-"), ("*", "/"), ("-", "/", "+", "*")):
                    t = ("leaf", "mean")
                    for i in range(nterms):
                        leaf = ("leaf", ("2", "0.5", "std", "max")[i % 4])
                        t = ("bin", ops[i % len(ops)], t, leaf)
                    for s in range(len(STATS)):
                        yield dict(kind="expr", fx=render(t)[0], tree=t, stats=s)
        import sys
        sys.setrecursionlimit(10000)
        run_cases(acc, gen(), check_case)
    elif kind == "tokens":
        first = TOKENS[task[1]]

        def gen():
            for d in range(1, 4):
                for rest in itertools.product(TOKENS, repeat=d - 1):
                    slot = ("suspect_min", "suspect_max", "fail_min", "fail_max")[(d + len(rest)) % 4]
                    yield dict(kind="tokens", tokens=[first, *rest], slot=slot)
        run_cases(acc, gen(), check_case)
    elif kind == "tokens_multi":
        def gen():
            for ntests in (2, 3):
                for pos in range(ntests):
                    for toks in ([t] for t in TOKENS if t != ""):
                        for slot in ("suspect_min", "fail_max"):
                            yield dict(kind="tokens", tokens=toks, slot=slot, ntests=ntests, test_pos=pos)
                    for toks in (["mean", "+", "foo"], ["3", "*", "^"], ["(", "max", ")"]):
                        yield dict(kind="tokens", tokens=toks, slot="suspect_max", ntests=ntests, test_pos=pos)
        run_cases(acc, gen(), check_case)
    elif kind == "creator_seq":
        pattern = task[1]

        def gen():
            boxes = [[0, 0, 0, 0], [0, 2, 0, 2], [1, 2, 1, 1], [2, 2, 0, 1]]
            for a in boxes:
                for b in boxes:
                    if a != b:
                        for mode in ("edit-in-place", "fresh-objects"):
                            yield dict(kind="creator_seq", pattern=pattern, dim="2d", boxes=[a, b, a], mode=mode)
        try:
            run_cases(acc, gen(), check_case)
        finally:
            _cleanup_creators()
    elif kind == "creator":
        _, pattern, dim = task

        def gen():
            if pattern == "big":
                for box in ([0, 8, 0, 4], [0, 8, 0, 3], [0, 6, 0, 4], [0, 7, 0, 3], [1, 8, 0, 4], [0, 3, 0, 3], [0, 8, 1, 4], [2, 8, 0, 4], [0, 8, 2, 2], [4, 4, 0, 4]):
                    for dts in range(len(DATES)):
                        for ex in range(len(EXPRSETS)):
                            yield dict(kind="creator", pattern=pattern, dim=dim, box=box, dates=dts, exprs=ex)
                return
            for i0 in range(3):
                for i1 in range(i0, 3):
                    for j0 in range(3):
                        for j1 in range(j0, 3):
                            for dts in range(len(DATES)):
                                for ex in range(len(EXPRSETS)):
                                    yield dict(kind="creator", pattern=pattern, dim=dim, box=[i0, i1, j0, j1], dates=dts, exprs=ex)
                                    if dts == 1 and (i0, j0) == (0, 0):
                                        for ko in ("alpha", "rev", "rot"):
                                            yield dict(kind="creator", pattern=pattern, dim=dim, box=[i0, i1, j0, j1], dates=dts, exprs=ex, key_order=ko)
        try:
            run_cases(acc, gen(), check_case)
        finally:
            _cleanup_creators()
