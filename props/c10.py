"""C10 - rate_of_change_test / argo.speed_test: change from the previous point per elapsed second."""
from __future__ import annotations

import itertools

import numpy as np

from mc import alpha
from refmodel import qc as R

from .common import V, judge_flags, run_cases

PROP = "C10"
SIGMA = (0.0, 1.0, 3.0, alpha.NAN)
GAPS = (1, 2, 60, 172_800)
THR = (0.25, 0.5, 1.0, 1.5, 3.0, 1.0 / 60.0)
NMAX = {"quick": 4, "thorough": 5}
TRACKN = {"quick": 3, "thorough": 4}
BUDGET = {"quick": 600, "thorough": 3000}
# (lon, lat)
POS = ((0.0, 0.0), (1.0, 0.0), (0.0, 60.0), (1.0, 60.0), (179.9, 0.0), (alpha.NAN, 0.0), (0.0, alpha.NAN), (alpha.NAN, alpha.NAN))
SGAPS = (1, 3600)

META = dict(
    rule="rate_of_change_test: every series of length 0..N over {0,1,3,NaN} x every gap sequence over "
         "{1,2,60,172800}s x time carrier {datetime64[ns], epoch seconds} x 6 thresholds (rates land exactly on "
         "thresholds), + every unequal (len(inp),len(tinp)) in {0..4}^2 (must raise ValueError); speed_test: every "
         "track of length 0..M over 8 positions (incl. each coordinate missing) x every gap sequence over {1,3600}s "
         "x every (suspect,fail) pair drawn from {0.9v, v, 1.1v : v a hop speed of the track} + every unequal "
         "length triple in {0..3}^3. Each state = one real call judged per point by the scalar reference "
         "(geographiclib per pair with explicit lat/lon). Scale: 12345-point rate-of-change series, speed tracks of 1297 and 2600 fixes with thresholds equal to observed speeds. non-trivial = reference demands SUSPECT/FAIL or ValueError",
    bounds={"quick": {"roc_len": 4, "track_len": 3}, "thorough": {"roc_len": 5, "track_len": 4}},
    not_judged=["missing points and points whose own/previous position is incomplete (C02)"],
    assumptions=["IEEE division identical in reference and implementation; geographiclib is the distance oracle"],
)


def tasks(tier):
    n = NMAX[tier]
    ts = []
    for thr_i in range(len(THR)):
        for carrier in ("dt64", "epoch"):
            for first in SIGMA:
                ts.append(("roc", thr_i, carrier, first, n))
    ts.append(("roc_small",))
    ts.append(("roc_odd",))
    ts.append(("speed_sum",))
    ts.append(("roc_long",))
    ts.append(("roc_len",))
    m = TRACKN[tier]
    for a in range(len(POS)):
        for b in range(len(POS)):
            ts.append(("speed", a, b, m))
    ts.append(("speed_small",))
    ts.append(("speed_len",))
    return ts


def mk_time(secs, carrier):
    if carrier == "dt64":
        return alpha.dt64(secs)
    if carrier == "epoch":
        return np.array(secs, dtype="int64")
    if carrier == "epoch_list":
        return list(secs)
    if carrier in ("epoch_i4", "epoch_u4", "epoch_f8"):   # epoch seconds as stored on disk: 32-bit integers, doubles
        return np.array(secs, dtype={"epoch_i4": "int32", "epoch_u4": "uint32", "epoch_f8": "float64"}[carrier])
    raise KeyError(carrier)


def check_case(case):
    from ioos_qc import argo, qartod

    fn = case["fn"]
    if fn == "roc":
        x = case["x"]
        secs = alpha.times_from_gaps(case["gaps"]) if x else []
        data = alpha.nd(x)
        if case.get("data") == "ma":  # masked array with a finite value hidden under the mask
            miss = [v in (alpha.NAN, None) for v in x]
            data = np.ma.MaskedArray(np.array([-9999.0 if m else float(v) for v, m in zip(x, miss)]), mask=miss)
        out = alpha.call(qartod.rate_of_change_test, data, mk_time(secs, case["carrier"]), case["thr"])
        acceptable = R.rate_of_change(alpha.ref(x), secs, case["thr"])
        vs, obs = judge_flags(PROP, "rate_of_change_test", out, acceptable, len(x), extra_sig=f"time={case['carrier']}")
        return vs, alpha.is_nontrivial(acceptable), obs, sum(a is None for a in acceptable)
    if fn == "roc_len":
        ni, nt = case["ni"], case["nt"]
        x = [float(i % 3) for i in range(ni)]
        secs = alpha.regular_secs(nt)
        out = alpha.call(qartod.rate_of_change_test, alpha.nd(x), mk_time(secs, case["carrier"]), 0.5)
        vs, obs = judge_flags(PROP, "rate_of_change_test", out, "ValueError", ni, extra_sig=f"len(inp)={min(ni,3)}{'+' if ni>=3 else ''}|len(tinp)={nt}")
        return vs, True, obs, 0
    if fn == "speed":
        lon = [p[0] for p in case["track"]]
        lat = [p[1] for p in case["track"]]
        n = len(lon)
        secs = alpha.times_from_gaps(case["gaps"]) if n else []
        out = alpha.call(argo.speed_test, alpha.nd(lon), alpha.nd(lat), mk_time(secs, case["carrier"]),
                         suspect_threshold=case["suspect"], fail_threshold=case["fail"])
        acceptable = R.speed(alpha.ref(lon), alpha.ref(lat), secs, case["suspect"], case["fail"])
        vs, obs = judge_flags(PROP, "speed_test", out, acceptable, n, extra_sig=f"time={case['carrier']}")
        return vs, alpha.is_nontrivial(acceptable, boring=(1, 2)), obs, sum(a is None for a in acceptable)
    if fn == "speed_len":
        a, b, c = case["lens"]
        lon = [float(i) for i in range(a)]
        lat = [float(i) for i in range(b)]
        secs = alpha.regular_secs(c)
        out = alpha.call(argo.speed_test, alpha.nd(lon), alpha.nd(lat), mk_time(secs, "dt64"), suspect_threshold=1.0, fail_threshold=2.0)
        vs, obs = judge_flags(PROP, "speed_test", out, "ValueError", a, extra_sig="length-mismatch")
        return vs, True, obs, 0
    raise KeyError(fn)


def replay(case):
    return check_case(case)[0]


def thresholds_for(track, gaps):
    lon = alpha.ref([p[0] for p in track])
    lat = alpha.ref([p[1] for p in track])
    cands = {1e9}
    for i in range(1, len(track)):
        if R.full(lon, lat, i) and R.full(lon, lat, i - 1):
            v = R.geodist(lat[i - 1], lon[i - 1], lat[i], lon[i]) / float(gaps[i - 1])
            if v > 0:
                import math as _m
                d = v * float(gaps[i - 1])
                cands.update((0.9 * v, v, 1.1 * v, _m.floor(d) / float(gaps[i - 1]), (_m.floor(d) + d) / 2 / float(gaps[i - 1])))
    return sorted(cands)


def run_task(task, acc):
    kind = task[0]
    if kind == "roc":
        _, thr_i, carrier, first, n = task

        def gen():
            for k in range(1, n + 1):
                for rest in itertools.product(SIGMA, repeat=k - 1):
                    x = [first, *rest]
                    for gaps in itertools.product(GAPS, repeat=k - 1):
                        yield dict(fn="roc", x=x, gaps=list(gaps), carrier=carrier, thr=THR[thr_i])
        run_cases(acc, gen(), check_case)
    elif kind == "roc_small":
        def gen():
            for carrier in ("dt64", "epoch", "epoch_list"):
                for thr in THR:
                    yield dict(fn="roc", x=[], gaps=[], carrier=carrier, thr=thr)
            for x in alpha.all_seqs(SIGMA, 1, 3):
                for gaps in itertools.product(GAPS[:3], repeat=len(x) - 1):
                    for thr in THR[:3]:
                        for carrier in ("epoch_list", "epoch_i4", "epoch_u4", "epoch_f8"):
                            yield dict(fn="roc", x=list(x), gaps=list(gaps), carrier=carrier, thr=thr)
            for tr in itertools.product(POS[:4], repeat=3):
                for gaps in itertools.product(SGAPS, repeat=2):
                    th = thresholds_for([list(p) for p in tr], gaps)
                    for carrier in ("epoch_i4", "epoch_u4", "epoch_f8", "epoch_list"):
                        yield dict(fn="speed", track=[list(p) for p in tr], gaps=list(gaps), carrier=carrier, suspect=th[0], fail=th[-1])
            for x in alpha.all_seqs(SIGMA, 1, 4):
                if alpha.NAN in x:
                    for thr in THR[:4]:
                        yield dict(fn="roc", x=list(x), gaps=[60] * (len(x) - 1), carrier="dt64", thr=thr, data="ma")
        run_cases(acc, gen(), check_case)
    elif kind == "roc_odd":
        # steps for which (d / dt) * dt does not round back to d: a rate exactly on the threshold is not "greater"
        def gen():
            steps = (49, 93, 107, 7, 3)
            thrs = sorted({d / dt for d in (1.0, 2.0, 3.0) for dt in steps})
            for x in alpha.all_seqs((0.0, 1.0, 3.0), 2, 3):
                for gaps in itertools.product(steps, repeat=len(x) - 1):
                    for thr in thrs:
                        for carrier in ("dt64", "epoch"):
                            yield dict(fn="roc", x=list(x), gaps=list(gaps), carrier=carrier, thr=thr)
            for step in steps:   # regularly sampled long series with that step
                x = alpha.xl((0.0, 1.0, 3.0, alpha.NAN), 400, 3)
                for d in (1.0, 2.0, 3.0):
                    yield dict(fn="roc", x=list(x), gaps=[step] * (len(x) - 1), carrier="dt64", thr=d / step)
        run_cases(acc, gen(), check_case)
    elif kind == "speed_sum":
        # irregular axes whose total span equals (n-1) times their first step (an "evenly sampled" look-alike)
        def gen():
            pats = ((100, 10, 190), (100, 10, 190, 100), (60, 30, 120, 30), (3600, 7200, 10, 3590), (86400, 10, 3 * 86400 - 20, 10))
            for gaps in pats:
                for tr in itertools.product(POS[:4], repeat=len(gaps) + 1):
                    track = [list(p) for p in tr]
                    th = thresholds_for(track, gaps)
                    for s_ in th[::2]:
                        yield dict(fn="speed", track=track, gaps=list(gaps), carrier="dt64", suspect=s_, fail=th[-1])
                    yield dict(fn="speed", track=track, gaps=list(gaps), carrier="epoch", suspect=th[len(th) // 2], fail=th[-2] if len(th) > 1 else th[-1])
        run_cases(acc, gen(), check_case)
    elif kind == "roc_long":
        def gen():
            for x in (alpha.debruijn(SIGMA, 4) * 3, alpha.xl(SIGMA)):
                gaps = [GAPS[(i * 7 + i // 5) % 4] for i in range(len(x) - 1)]
                for carrier in ("dt64", "epoch"):
                    for thr in THR:
                        yield dict(fn="roc", x=list(x), gaps=gaps, carrier=carrier, thr=thr)
            # long tracks for speed_test: every ordered pair of positions as a hop; thresholds on / around observed speeds
            for track in ([list(p) for p in alpha.debruijn(tuple(POS), 2)], [list(p) for p in alpha.xl(tuple(POS), 2600, 2)]):
                gaps = [SGAPS[(i * 3 + i // 7) % 2] for i in range(len(track) - 1)]
                th = thresholds_for(track[:40], gaps[:39])
                for s_ in th[::3]:
                    for f_ in th[1::4]:
                        yield dict(fn="speed", track=track, gaps=gaps, carrier="dt64", suspect=s_, fail=f_)
        run_cases(acc, gen(), check_case)
    elif kind == "roc_len":
        def gen():
            for ni in range(5):
                for nt in range(5):
                    if ni != nt:
                        for carrier in ("dt64", "epoch"):
                            yield dict(fn="roc_len", ni=ni, nt=nt, carrier=carrier)
        run_cases(acc, gen(), check_case)
    elif kind == "speed":
        _, a, b, m = task

        def gen():
            for k in range(2, m + 1):
                for rest in itertools.product(POS, repeat=k - 2):
                    track = [list(POS[a]), list(POS[b])] + [list(p) for p in rest]
                    for gaps in itertools.product(SGAPS, repeat=k - 1):
                        th = thresholds_for(track, gaps)
                        for s in th:
                            for f in th:
                                yield dict(fn="speed", track=track, gaps=list(gaps), carrier="dt64", suspect=s, fail=f)
                        yield dict(fn="speed", track=track, gaps=list(gaps), carrier="epoch", suspect=th[0], fail=th[-1])
        run_cases(acc, gen(), check_case)
    elif kind == "speed_small":
        def gen():
            for carrier in ("dt64", "epoch"):
                yield dict(fn="speed", track=[], gaps=[], carrier=carrier, suspect=1.0, fail=2.0)
                for p in POS:
                    yield dict(fn="speed", track=[list(p)], gaps=[], carrier=carrier, suspect=1.0, fail=2.0)
        run_cases(acc, gen(), check_case)
    elif kind == "speed_len":
        def gen():
            for lens in itertools.product(range(4), repeat=3):
                if len(set(lens)) > 1:
                    yield dict(fn="speed_len", lens=list(lens))
        run_cases(acc, gen(), check_case)
