"""C01 - every QC test is a total, pure map from a series to one valid flag per point.

(A) prefix tree: function x cfg x every series of length 0..N (ndarray and list carriers).
(B) event graph over call histories sharing the same argument objects.
"""
from __future__ import annotations

import itertools

import numpy as np

from mc import alpha
from refmodel import qc as R

from . import registry as G
from .common import V, run_cases

PROP = "C01"
SIG_ND = (0.0, 1.0, 3.0, alpha.NAN)
SIG_LIST = (0.0, 1.0, 3.0, alpha.NAN, None)
NMAX = {"quick": 5, "thorough": 7}
PNMAX = {"quick": 4, "thorough": 5}
HDEPTH = {"quick": 3, "thorough": 4}
BUDGET = {"quick": 900, "thorough": 3400}

META = dict(
    rule="(A) prefix tree: each of the 11 test functions x 1-5 parameter sets x every series of length 0..N over "
         "{0,1,3,NaN} as ndarray, as float and integer masked arrays (missing = masked with 999 / 7 underneath; masked arrays and lists to length N-1) and over {0,1,3,NaN,None} as python list (positions: 7 lon/lat pairs incl. each "
         "coordinate NaN/None), aux inputs = regular 60 s axis, depth ramp and the data's missing pattern shifted by "
         "one; each state executes the real function twice on the same argument objects with a call on another series of the same length in between and checks: no exception, one "
         "flag per element, input shape, every flag in {1,2,3,4,9}, no masked flag, argument objects byte-identical "
         "afterwards, second call identical, first returned array unchanged by later calls, and a call after the caller refilled the same array objects in place (other values, shifted times) equals a fresh call on that content. (B) event graph: every history of depth<=d over a menu of 18 operations "
         "(one per function/mode, four of them on a second input set of another length and time axis) that share the same ndarray inputs, "
         "ClimatologyConfig objects and span lists; in "
         "every state the shared objects' fingerprint equals the "
         "initial one and each operation returns what it returns in the empty history. Scale: every test on series of 255..4097 points (each length k*256-1, k*256, k*256+1 met) with repeat / refill; call histories include operations on 700- and 601-point records (gaps at 599/600) sharing the process with the short ones. non-trivial = series contains "
         "a missing marker or has length<3 (A); history of depth>=2 (B)",
    bounds={"quick": {"series_len": 5, "track_len": 4, "history_depth": 3}, "thorough": {"series_len": 7, "track_len": 5, "history_depth": 4}},
    not_judged=["which flag is returned (C02-C14)", "n-dimensional inputs"],
    assumptions=["None markers only through list carriers (object arrays are not a documented input)"],
)


def tasks(tier):
    ts = []
    for name, spec in G.SPECS.items():
        pos = spec["kind"] == "position"
        n = PNMAX[tier] if pos else NMAX[tier]
        for ci in range(len(spec["cfgs"])):
            for how in ("nd", "list", "ma", "ma2", "mai", "ndi", "listi", "ndbe", "ndf4"):
                if how in ("ma", "ma2", "mai") and not spec["none_ok"]:
                    continue
                pass  # (integer data with a None bound is judged since /repo fix of valid_range_test)
                if how == "list" and not spec["none_ok"]:
                    sig = "nd"
                else:
                    sig = "nd" if how in ("ma", "ma2", "mai", "ndi", "listi", "ndbe", "ndf4") else how
                ts.append(("A", name, ci, how, sig, n if how == "nd" else n - 1))
    for name, spec in G.SPECS.items():
        ts.append(("L", name))
    ops = len(OPS)
    for first in range(ops):
        for second in range(-1, ops):
            ts.append(("B", first, second, HDEPTH[tier]))
    return ts


def alphabet(name, sig):
    spec = G.SPECS[name]
    if spec["kind"] == "position":
        return tuple(range(5)) if sig == "nd" else tuple(range(len(G.POSITIONS)))
    return SIG_ND if sig == "nd" else SIG_LIST


def shape_of(obj):
    try:
        return tuple(np.shape(obj))
    except Exception:  # noqa: BLE001
        return None


def check_case(case):
    if case["kind"] == "B":
        return check_history(case)
    name, cfg, x, how = case["fn"], case["cfg"], case["x"], case["how"]
    n = len(x)
    site = name
    vs = []
    built = alpha.call(G.build, name, cfg, x, how, case.get("zmode", "ramp"))
    if not isinstance(built, alpha.Raised) and any(v is None for v in built[1].values()):
        return [], False, None, 1, 0  # the carrier cannot hold this series (non-integral value in an integer array)
    if isinstance(built, alpha.Raised):
        return [V(f"{PROP}|{site}|symptom=config-{built!r}", f"building parameters raised {built.name}: {built.msg}")], True, None, 0, 0
    fn, kw, shared = built
    before = {k: G.fingerprint(v) for k, v in shared.items()}
    out1 = alpha.call(fn, **kw)
    after = {k: G.fingerprint(v) for k, v in shared.items()}
    nt = n < 3 or any(s in (alpha.NAN, None) for s in x) or (G.SPECS[name]["kind"] == "position" and any(i >= 2 for i in x))
    lenclass = str(n) if n < 3 else "3+"
    if isinstance(out1, alpha.Raised):
        vs.append(V(f"{PROP}|{site}|len={lenclass}|carrier={how}|symptom=raises:{out1.name}",
                    f"{site} raised {out1.name}: {out1.msg}", "flags", repr(out1)))
        return vs, nt, ("exc", out1.name), 0, 1
    vals, shape, problems = alpha.flags_of(out1)
    if vals is None:
        vs.append(V(f"{PROP}|{site}|symptom={problems[0]}", f"{site} returned an unusable value", None, problems))
        return vs, nt, None, 0, 1
    if len(vals) != n:
        vs.append(V(f"{PROP}|{site}|len={lenclass}|symptom=wrong-length", f"{site} returned {len(vals)} flags for {n} inputs", n, vals))
    elif shape != (n,):
        vs.append(V(f"{PROP}|{site}|len={lenclass}|symptom=wrong-shape", f"{site} returned shape {shape} for input shape {(n,)}", [n], list(shape)))
    if any(v is None for v in vals):
        vs.append(V(f"{PROP}|{site}|symptom=masked-flag", f"{site} hides a flag behind a mask", "unmasked", vals))
    bad = [v for v in vals if v is not None and v not in R.FLAGS]
    if bad:
        vs.append(V(f"{PROP}|{site}|symptom=invalid-flag:{bad[0]}", f"{site} returned {bad[0]} which is not a QARTOD flag", sorted(R.FLAGS), vals))
    for k in before:
        if before[k] != after[k]:
            vs.append(V(f"{PROP}|{site}|symptom=argument-modified:{k}", f"{site} modified the caller's {k}", None, None))
    # an unrelated call of the same function on a different series of the same length in between
    # (a result or scratch buffer cached by size / hoisted to module scope would leak into the repeat)
    xalt = list(reversed(x))
    if xalt == list(x) and n:
        xalt = list(x[1:]) + [x[0]] if len(set(map(str, x))) > 1 else [(0 if G.SPECS[name]["kind"] == "position" else 3.0) if str(v) != "3.0" and v != 0 else (1 if G.SPECS[name]["kind"] == "position" else 0.0) for v in x]
    alt = alpha.call(G.build, name, cfg, xalt, how, case.get("zmode", "ramp"))
    alt_vals = None
    if not isinstance(alt, alpha.Raised):
        alt_vals, _, _ = alpha.flags_of(alpha.call(alt[0], **alt[1]))
    refill = how == "nd" and alt_vals is not None and n and not isinstance(alt, alpha.Raised)
    if refill:
        # the caller refills the SAME array objects in place with the other series (times shifted by one step) and
        # calls again: the flags must be those of a fresh call on that content (no cache keyed by object identity)
        snap = {}
        ok = True
        for k, v in kw.items():
            if isinstance(v, np.ndarray) and k in alt[1] and isinstance(alt[1][k], np.ndarray) and v.shape == alt[1][k].shape and v.dtype == alt[1][k].dtype:
                snap[k] = v.copy()
        fresh = dict(alt[1])
        if "tinp" in kw and isinstance(kw["tinp"], np.ndarray):
            snap["tinp"] = kw["tinp"].copy()
            shifted = kw["tinp"] + (7 * np.arange(n)).astype("timedelta64[s]")
            fresh["tinp"] = shifted.copy()
        fresh_vals, _, _ = alpha.flags_of(alpha.call(alt[0], **fresh))
    out2 = alpha.call(fn, **kw)
    vals2, _, _ = alpha.flags_of(out2)
    if vals2 != vals:
        vs.append(V(f"{PROP}|{site}|symptom=second-call-differs", f"{site} returned different flags when called again (after a call on another series of the same length)", vals, vals2 if vals2 is not None else repr(out2)))
    if refill:
        for k in snap:
            kw[k][...] = fresh[k]
        out3 = alpha.call(fn, **kw)
        vals3, _, _ = alpha.flags_of(out3)
        for k, v in snap.items():
            kw[k][...] = v
        nexec_extra = 2
        if vals3 != fresh_vals:
            vs.append(V(f"{PROP}|{site}|symptom=stale-result-for-refilled-arrays", f"{site}: after the caller refilled the same array objects in place the flags are not those of the new content", fresh_vals, vals3 if vals3 is not None else repr(out3)))
    vals1_again, _, _ = alpha.flags_of(out1)
    if vals1_again != vals:
        vs.append(V(f"{PROP}|{site}|symptom=returned-array-changed-later", f"the flag array {site} returned was modified by a later call", vals, vals1_again))
    return vs, nt, tuple(vals), 0, 3


# ------------------------------------------------------------------ (B) call histories
# (function, cfg index, alt): alt=True runs the operation on the SECOND input set (other length, other time axis)
# while still sharing the parameter objects (ClimatologyConfig, span lists, bbox) with the other operations
OPS = [
    ("gross_range_test", 1, False), ("valid_range_test", 0, False), ("climatology_test", 2, False), ("climatology_test", 4, False),
    ("spike_test", 3, False), ("spike_test", 1, False), ("rate_of_change_test", 0, False), ("flat_line_test", 0, False),
    ("attenuated_signal_test", 0, False), ("attenuated_signal_test", 3, False), ("density_inversion_test", 3, False),
    ("location_test", 3, False), ("speed_test", 0, False), ("pressure_increasing_test", 0, False),
    ("climatology_test", 2, True), ("climatology_test", 4, True), ("gross_range_test", 1, True), ("rate_of_change_test", 0, True),
    # long records (700 points with gaps at 599/600, then 601 clean points): a pooled / grown scratch buffer that is not
    # re-initialised between calls only shows when an earlier, longer call left something at the later call's tail
    ("rate_of_change_test", 0, "L1"), ("rate_of_change_test", 0, "L2"), ("spike_test", 1, "L1"), ("spike_test", 1, "L2"),
    ("pressure_increasing_test", 0, "L1"), ("pressure_increasing_test", 0, "L2"),
]
LONG1, LONG2 = 700, 601
HX = [0.0, 1.0, 3.0, alpha.NAN, 1.0, 1.0]
HPOS = [0, 1, 2, 4, 1, 0]
_BASE = {}
LENGTHS = (255, 256, 257, 511, 512, 513, 767, 768, 769, 1000, 1001, 1023, 1024, 1025, 2047, 2048, 2049, 4095, 4096, 4097)


class Shared:
    """One set of caller-owned argument objects shared by every operation of a history."""

    def __init__(self):
        self.inp = alpha.nd(HX)
        self.tinp = alpha.dt64(alpha.regular_secs(len(HX)))
        self.zinp = alpha.nd(G.z_for(HX, "shifted"))
        self.lon = alpha.nd([G.POSITIONS[i][0] for i in HPOS])
        self.lat = alpha.nd([G.POSITIONS[i][1] for i in HPOS])
        self.pressure = alpha.nd([0.0, 1.0, 1.0, 3.0, 2.0, 4.0])
        # second input set: other length, other months / quarters, irregular steps
        self.inp2 = alpha.nd([3.0, 1.0, alpha.NAN, 0.0])
        self.tinp2 = alpha.dt64([alpha.T0 + 86400 * d for d in (150, 190, 191, 300)])
        self.zinp2 = alpha.nd([50.0, 5.0, 5.0, alpha.NAN])
        l1 = list(alpha.xl((0.0, 1.0, 3.0), LONG1, 3))
        l1[599] = l1[600] = alpha.NAN
        self.inpL = {"L1": alpha.nd(l1), "L2": alpha.nd(list(alpha.xl((1.0, 0.0, 3.0), LONG2, 3)))}
        self.tinpL = {"L1": alpha.dt64(alpha.regular_secs(LONG1)), "L2": alpha.dt64(alpha.regular_secs(LONG2))}
        p1 = [float(i) for i in range(LONG1)]
        p1[300] = p1[299]
        p1[400] = 398.5
        p1[600] = p1[599]
        self.pressureL = {"L1": alpha.nd(p1), "L2": alpha.nd([float(i) for i in range(LONG2)])}
        self.span_a = [0, 3]
        self.span_b = [1, 2]
        self.bbox = [-10, -5, 10, 5]
        self.clim = {}
        for ci in (2, 4):
            self.clim[ci] = G.build_cfg("climatology_test", dict(G.SPECS["climatology_test"]["cfgs"][ci], _object=True))["config"]

    def objects(self):
        d = dict(inp=self.inp, tinp=self.tinp, zinp=self.zinp, lon=self.lon, lat=self.lat, pressure=self.pressure,
                 inp2=self.inp2, tinp2=self.tinp2, zinp2=self.zinp2,
                 span_a=self.span_a, span_b=self.span_b, bbox=self.bbox)
        for k in ("L1", "L2"):
            d[f"inp{k}"], d[f"tinp{k}"], d[f"pressure{k}"] = self.inpL[k], self.tinpL[k], self.pressureL[k]
        for k, v in self.clim.items():
            d[f"clim{k}"] = v
        return d

    def call(self, opi):
        name, ci, alt = OPS[opi]
        fn = G.func(name)
        kw = G.build_cfg(name, G.SPECS[name]["cfgs"][ci])
        spec = G.SPECS[name]
        if name == "gross_range_test":
            kw["fail_span"], kw["suspect_span"] = self.span_a, self.span_b
        if name == "valid_range_test":
            kw["valid_span"] = self.span_a
        if name == "location_test":
            kw["bbox"] = self.bbox
        if name == "climatology_test":
            kw["config"] = self.clim[ci]
        if spec["kind"] == "position":
            kw["lon"], kw["lat"] = self.lon, self.lat
        elif name == "pressure_increasing_test":
            kw["inp"] = self.pressureL[alt] if alt in ("L1", "L2") else self.pressure
        elif alt in ("L1", "L2"):
            kw["inp"] = self.inpL[alt]
        else:
            kw["inp"] = self.inp2 if alt else self.inp
        if "t" in spec["needs"]:
            kw["tinp"] = self.tinpL[alt] if alt in ("L1", "L2") else (self.tinp2 if alt else self.tinp)
        if "z" in spec["needs"]:
            kw["zinp"] = self.zinp2 if alt else self.zinp
        out = alpha.call(fn, **kw)
        vals, _, _ = alpha.flags_of(out)
        return vals if vals is not None else repr(out)


def module_state():
    import importlib
    import types

    st = []
    for mn in ("qartod", "argo", "axds", "utils"):
        m = importlib.import_module(f"ioos_qc.{mn}")
        for k in sorted(vars(m)):
            v = vars(m)[k]
            if k.startswith("__") or isinstance(v, (types.ModuleType, type)) and k not in ("QartodFlags",):
                continue
            if isinstance(v, types.FunctionType):
                if v.__module__ == m.__name__:
                    st.append((mn, k, repr(v.__defaults__), repr(v.__kwdefaults__)))
                continue
            if callable(v) and not isinstance(v, type):
                continue
            if isinstance(v, type):
                st.append((mn, k, repr(sorted((a, repr(b)) for a, b in vars(v).items() if not a.startswith("__")))))
                continue
            try:
                st.append((mn, k, repr(v)))
            except Exception:  # noqa: BLE001
                pass
    return hash(tuple(st))


def reset_modules():
    """every history starts from the library's initial module state"""
    import importlib

    for mn in ("utils", "qartod", "argo", "axds"):
        importlib.reload(importlib.import_module(f"ioos_qc.{mn}"))


def baseline():
    if not _BASE:
        reset_modules()
        for i in range(len(OPS)):
            reset_modules()
            _BASE[i] = Shared().call(i)
        reset_modules()
        _BASE["objs"] = {k: G.fingerprint(v) for k, v in Shared().objects().items()}
        _BASE["mod"] = module_state()
    return _BASE


def check_history(case):
    hist = case["ops"]
    base = baseline()
    reset_modules()
    sh = Shared()
    vs = []
    obs = []
    for step, opi in enumerate(hist):
        res = sh.call(opi)
        obs.append(repr(res))
        name = OPS[opi][0]
        if res != base[opi]:
            prev = OPS[hist[step - 1]][0] if step else "-"
            vs.append(V(f"{PROP}|history|op={name}|after={prev}|symptom=result-depends-on-history",
                        f"{name} returns different flags after the history {[OPS[i][0] for i in hist[:step]]}", base[opi], res))
        fp = {k: G.fingerprint(v) for k, v in sh.objects().items()}
        for k, v in fp.items():
            if v != base["objs"][k]:
                vs.append(V(f"{PROP}|history|op={name}|symptom=shared-argument-modified:{k}",
                            f"{name} modified the shared {k}", None, None))
        # (module-level state is not judged: an internal cache that never changes a result keeps the property;
        #  what the property demands - history independent results, untouched arguments - is judged above)
        if vs:
            break
    return vs, len(hist) >= 2, tuple(obs), 0, len(hist)


def replay(case):
    return check_case(case)[0]


def run_task(task, acc):
    if task[0] == "A":
        _, name, ci, how, sig, n = task
        cfg = G.SPECS[name]["cfgs"][ci]
        al = alphabet(name, sig)
        zmodes = ("ramp", "shifted") if "z" in G.SPECS[name]["needs"] else ("ramp",)

        def gen():
            for x in alpha.all_seqs(al, 0, n):
                for zm in zmodes:
                    yield dict(kind="A", fn=name, cfg=cfg, x=list(x), how=how, zmode=zm)
            if how in ("nd", "list", "ma"):
                long_x = alpha.debruijn(tuple(al), 3 if len(al) > 4 else 4)  # every short window of symbols, 100-260 points
                for zm in zmodes:
                    yield dict(kind="A", fn=name, cfg=cfg, x=list(long_x), how=how, zmode=zm)
                    yield dict(kind="A", fn=name, cfg=cfg, x=list(long_x) * 5, how=how, zmode=zm)
        run_cases(acc, gen(), check_case)
    elif task[0] == "L":
        # lengths around every block size an implementation could plausibly chunk by
        name = task[1]
        al = alphabet(name, "nd")

        def gen():
            for ci, cfg in enumerate(G.SPECS[name]["cfgs"]):
                if ci > 1 and name not in ("spike_test", "attenuated_signal_test"):
                    continue
                base = list(alpha.xl(tuple(al), 4100, 3))
                for ln in LENGTHS:
                    yield dict(kind="A", fn=name, cfg=cfg, x=base[:ln], how="nd", zmode="ramp")
        run_cases(acc, gen(), check_case)
    else:
        _, first, second, depth = task

        def gen():
            if second < 0:
                yield dict(kind="B", ops=[first])
                return
            for d in range(2, depth + 1):
                for rest in itertools.product(range(len(OPS)), repeat=d - 2):
                    yield dict(kind="B", ops=[first, second, *rest])
        run_cases(acc, gen(), check_case)
