"""C12 - attenuated_signal_test: spread of the trailing window (or whole series) vs thresholds."""
from __future__ import annotations

import itertools

import numpy as np

from mc import alpha
from refmodel import qc as R

from .common import judge_flags, run_cases

PROP = "C12"
SIGMA = (0.0, 1.0, 3.0, alpha.NAN)
THR = (0.25, 0.75, 1.0, 2.5, 10.0)
PERIODS = (60, 90, 120, 120.5, 121, 600)
MINS = ((None, None), (1, None), (2, None), (3, None), (None, 60), (None, 120), (None, 150))
GAPSETS = ((60, 60, 60, 60), (60, 120, 300, 60), (300, 60, 60, 120), (120, 120, 60, 300), (60, 300, 120, 120),
           (59.4, 60.2, 60.6, 59.6))  # the last one: whole-minute sampling with differing sub-second parts (t0 = T0 + 0.6 s)
THR3 = ((0.75, 0.25), (2.5, 1.0), (0.25, 2.5))
NMAX = {"quick": 4, "thorough": 5}
BUDGET = {"quick": 900, "thorough": 3400}

META = dict(
    rule="every series of length 1..N over {0,1,3,NaN} x 5 time axes (regular 60s + 4 irregular gap patterns over "
         "{60,120,300}s) x check_type {std, range}: (A) all 25 (suspect,fail) pairs over {.25,.75,1,2.5,10} (incl. "
         "fail>suspect; range spreads land exactly on 1) x test_period in {None, 120}; (B) test_period in "
         "{60,90,120,121,600} x (min_obs in {None,1,2,3} | min_period in {60,120,150}) x 3 threshold pairs; + unknown "
         "check_type (ValueError). Each state = one real call judged per point by the scalar reference (population "
         "std / range of the whole series; sample std / range of the (t-period, t] window). Scale: 6000-point series on regular, irregular and bursty axes (25 samples at 1 s every 97 samples of 60 s); the same records in other units (values and thresholds x 2^-30, 2^-60, 2^40). non-trivial = reference "
         "demands SUSPECT/FAIL/UNKNOWN somewhere",
    bounds={"quick": {"max_len": 4}, "thorough": {"max_len": 5}},
    not_judged=["missing points (C02)", "the empty series (no point to judge; totality is C01)", "std within 1e-9 of a threshold (excluded by the statement)",
                "range windows containing a missing value: UNKNOWN accepted as well as the NaN-ignoring verdict",
                "min_period on a single-point series (sampling step undefined)", "min_period on an axis with sub-second parts (rounding of the sampling step)"],
    assumptions=["pandas time-based rolling windows are closed on the right (t-period, t]"],
)


def warmup(tier):
    from ioos_qc import qartod

    x = np.array([0.0, 1.0, 3.0, 1.0])
    t = alpha.dt64(alpha.regular_secs(4))
    qartod.attenuated_signal_test(x, t, 1.0, 0.5, test_period=120, check_type="range")
    qartod.attenuated_signal_test(x, t, 1.0, 0.5, test_period=120, check_type="std")


def tasks(tier):
    n = NMAX[tier]
    ts = []
    for ct in ("std", "range"):
        for g in range(len(GAPSETS)):
            for first in SIGMA:
                ts.append(("A", ct, g, first, n))
                ts.append(("B", ct, g, first, n))
    ts.append(("small",))
    ts.append(("narrowint",))
    for ct in ("std", "range"):
        for first in SIGMA:
            ts.append(("units", ct, first, n))
    for ct in ("std", "range"):
        ts.append(("long", ct))
        ts.append(("xl", ct))
    return ts


def check_case(case):
    from ioos_qc import qartod

    x = case["x"]
    n = len(x)
    frac = any(float(g) != int(g) for g in case["gaps"])
    secs = alpha.times_from_gaps(case["gaps"][: max(n - 1, 0)], alpha.T0 + (0.6 if frac else 0)) if n else []
    secs = [round(s, 3) for s in secs]
    kw = {}
    for k in ("test_period", "min_obs", "min_period"):
        if case.get(k) is not None:
            kw[k] = case[k]
    sc = case.get("scale_pow2")
    data = alpha.nd(x)
    if sc is not None:
        # the same record in other units: values and thresholds multiplied by 2**sc (exact), same verdicts
        data = data * (2.0 ** sc)
    if case.get("data") in ("int16", "int8", "int16ma"):
        # narrow integer storage (packed counts): the spread must be computed without wrapping in the storage type
        dtn = "int8" if case["data"] == "int8" else "int16"
        miss = [v in (alpha.NAN, None) for v in x]
        arr = np.array([0 if m else int(v) for v, m in zip(x, miss)], dtype=dtn)
        data = np.ma.MaskedArray(arr, mask=miss) if (case["data"] == "int16ma" or any(miss)) else arr
    if case.get("data") == "ma":  # masked array with a finite value hidden under the mask
        miss = [v in (alpha.NAN, None) for v in x]
        data = np.ma.MaskedArray(np.array([50.0 if m else float(v) for v, m in zip(x, miss)]), mask=miss)
    tin = np.array([int(round(s * 1000)) for s in secs], dtype="int64").astype("datetime64[ms]").astype("datetime64[ns]") if frac else alpha.dt64(secs)
    mul = 2.0 ** sc if sc is not None else 1
    out = alpha.call(qartod.attenuated_signal_test, data, tin, case["suspect"] * mul, case["fail"] * mul,
                     check_type=case["check_type"], **kw)
    acceptable, skipped = R.attenuated(alpha.ref(x), secs, case["suspect"], case["fail"], case.get("test_period"),
                                       case.get("min_obs"), case.get("min_period"), case["check_type"])
    mode = "windowed" if case.get("test_period") else "whole"
    mins = "min_obs" if case.get("min_obs") is not None else ("min_period" if case.get("min_period") is not None else "nomin")
    vs, obs = judge_flags(PROP, "attenuated_signal_test", out, acceptable, n,
                          extra_sig=f"check_type={case['check_type']}|{mode}|{mins}", classify=lambda i: "point")
    nt = isinstance(acceptable, str) or alpha.is_nontrivial(acceptable)
    sk = 0 if isinstance(acceptable, str) else sum(a is None for a in acceptable)
    return vs, nt, obs, sk


def replay(case):
    return check_case(case)[0]


def series_from(first, n):
    for k in range(1, n + 1):
        for rest in itertools.product(SIGMA, repeat=k - 1):
            yield [first, *rest]


def run_task(task, acc):
    kind = task[0]
    if kind == "A":
        _, ct, g, first, n = task

        def gen():
            for x in series_from(first, n):
                for tp in (None, 120):
                    for s in THR:
                        for f in THR:
                            yield dict(x=x, gaps=list(GAPSETS[g]), check_type=ct, suspect=s, fail=f, test_period=tp)
        run_cases(acc, gen(), check_case)
    elif kind == "B":
        _, ct, g, first, n = task

        def gen():
            for x in series_from(first, n):
                for tp in PERIODS:
                    for mo, mp in MINS:
                        if mp is not None and g == len(GAPSETS) - 1:
                            continue  # sub-second axis: "min_period / sampling step" depends on how the step is rounded - not judged
                        for s, f in THR3:
                            yield dict(x=x, gaps=list(GAPSETS[g]), check_type=ct, suspect=s, fail=f, test_period=tp, min_obs=mo, min_period=mp)
        run_cases(acc, gen(), check_case)
    elif kind == "narrowint":
        def gen():
            for data, al in (("int16", (-20000.0, 18000.0, 0.0, alpha.NAN)), ("int16ma", (-20000.0, 18000.0, 0.0, alpha.NAN)), ("int8", (-100.0, 90.0, 3.0, alpha.NAN))):
                big = 38000.0 if data != "int8" else 190.0
                for ct in ("std", "range"):
                    for x in alpha.all_seqs(al, 2, 4):
                        for tp in (None, 120):
                            for s_, f_ in ((big * 1.5, big / 4), (big / 2, big / 8), (big * 2, big * 1.2)):
                                yield dict(x=list(x), gaps=list(GAPSETS[0]), check_type=ct, suspect=s_, fail=f_, test_period=tp, data=data)
        run_cases(acc, gen(), check_case)
    elif kind == "units":
        _, ct, first, n = task

        def gen():
            for x in series_from(first, min(n, 4)):
                for sc in (-30, -60, 40):
                    for tp in (None, 120):
                        for s, f in THR3 + ((1.0, 1.0),):
                            yield dict(x=x, gaps=list(GAPSETS[1]), check_type=ct, suspect=s, fail=f, test_period=tp, scale_pow2=sc)
            xl_ = alpha.xl(SIGMA, 1500)
            for sc in (-30, 40):
                for tp in (None, 600):
                    yield dict(x=list(xl_), gaps=[60] * len(xl_), check_type=ct, suspect=0.75, fail=0.25, test_period=tp, scale_pow2=sc)
        run_cases(acc, gen(), check_case)
    elif kind == "long":
        ct = task[1]

        def gen():
            if False:
                yield None
            x = alpha.debruijn(SIGMA, 4)
            gaps_r = [60] * len(x)
            gaps_i = [(60, 120, 300, 60, 60)[i % 5] for i in range(len(x))]
            for gaps in (gaps_r, gaps_i):
                for tp in (None,) + PERIODS:
                    for mo, mp in (MINS if tp else MINS[:1]):
                        for s, f in ((0.75, 0.25), (2.5, 1.0), (0.25, 2.5), (1.0, 1.0)):
                            yield dict(x=list(x), gaps=gaps, check_type=ct, suspect=s, fail=f, test_period=tp, min_obs=mo, min_period=mp)
        run_cases(acc, gen(), check_case)
    elif kind == "xl":
        ct = task[1]

        def gen():
            x = alpha.xl(SIGMA, 6000)
            gaps_i = [(60, 120, 300, 60, 60)[i % 5] for i in range(len(x))]
            for gaps in ([60] * len(x), gaps_i):
                for tp, mo, mp in ((None, None, None), (120, None, None), (600, 3, None), (90, None, 60)):
                    for s, f in ((0.75, 0.25), (0.25, 2.5)):
                        yield dict(x=list(x), gaps=gaps, check_type=ct, suspect=s, fail=f, test_period=tp, min_obs=mo, min_period=mp)
            # mostly 60 s sampling with bursts of 1 s sampling (25 samples every 97): windows hold far more samples than period / median step
            gaps_b = [1 if (i % 97) < 25 else 60 for i in range(len(x))]
            for tp, mo in ((600, None), (120, 3), (30, None)):
                for s, f in ((0.75, 0.25), (2.5, 1.0)):
                    yield dict(x=list(x), gaps=gaps_b, check_type=ct, suspect=s, fail=f, test_period=tp, min_obs=mo, min_period=None)
        run_cases(acc, gen(), check_case)
    elif kind == "small":
        def gen():
            for ct in ("std", "range"):
                for x in alpha.all_seqs(SIGMA, 2, 4):
                    if alpha.NAN not in x:
                        continue
                    for tp in (None, 120, 600):
                        for s, f in THR3:
                            yield dict(x=list(x), gaps=list(GAPSETS[0]), check_type=ct, suspect=s, fail=f, test_period=tp, data="ma")
            for ct in ("bogus", "STD", ""):
                for x in alpha.all_seqs(SIGMA, 0, 2):   # (incl. the empty series: the rejection does not depend on the data)
                    for tp in (None, 120):
                        yield dict(x=list(x), gaps=list(GAPSETS[0]), check_type=ct, suspect=1.0, fail=0.25, test_period=tp)
        run_cases(acc, gen(), check_case)
