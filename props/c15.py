"""C15 - flags do not depend on how the same series and times are represented."""
from __future__ import annotations

import datetime as dt
import itertools

import numpy as np

from mc import alpha

from . import registry as G
from .common import V, run_cases

PROP = "C15"
NAN = alpha.NAN
MISS = "miss"  # logical missing marker of this module
NMAX = {"quick": 3, "thorough": 5}
BUDGET = {"quick": 900, "thorough": 3400}

DATA_CARRIERS = ("nd_f8", "list_nan", "list_none", "list_mixed", "tuple_nan", "tuple_none", "nd_f4", "nd_i4", "nd_i8", "nd_f8_nc",
                 "ma_nan", "ma_adv", "ma_nomask", "ma_i8", "series", "series_shift", "series_none", "dask")
TIME_CARRIERS = ("dt64ns", "dt64us", "dt64ms", "dt64s", "dt64m", "list_datetime", "list_timestamp", "list_dt64", "dtindex", "dtindex_utc",
                 "series_naive", "series_utc", "series_shift_naive", "epoch_int_list", "epoch_float_list", "epoch_int_nd", "epoch_float_nd",
                 "tuple_datetime", "dtindex_freq", "dtindex_utc_us", "dtindex_utc_s", "series_utc_ms", "dtindex_naive_s", "epoch_i4_nd", "epoch_u4_nd",
                 "series_obj_utc", "index_obj_utc", "series_obj_naive")

META = dict(
    rule="for each of the 11 tests (1-2 parameter sets): every logical series of length 0..N over {1, 3, missing} (range tests additionally over the float32 roundings of non-dyadic limits; rate_of_change "
         "additionally on 1.5 s and 2.25 s sampling with fractional epoch seconds; other inputs from a fixed menu) is run with the canonical carriers (float64 ndarray, datetime64[ns]) and with every "
         "other carrier of ONE input at a time (18 data/aux carriers: lists/tuples with None/NaN, f4/i4/i8 ndarrays, "
         "non-contiguous view, masked arrays with NaN and with adversarial data under the mask, integer masked arrays, pandas Series with "
         "default/shifted index, dask; 17 time carriers: datetime64 ns/us/ms/s, lists/tuples of datetime/Timestamp/"
         "datetime64, DatetimeIndex and Series naive/UTC-aware, epoch seconds int/float list/ndarray; spans as "
         "list/tuple) plus every (data carrier x time carrier) pair for N<=2; the flags must equal the canonical ones "
         "(an exception is a disagreement). Scale: 162..512-point and 1500-point series for every time carrier after an earlier call, with the same carrier, on another axis of the same shape (every odd timestamp moved); a frequency-carrying DatetimeIndex and a monthly axis. non-trivial = non-canonical carrier",
    bounds={"quick": {"max_len": 3}, "thorough": {"max_len": 5}},
    not_judged=["epoch seconds inside a pandas Series (statement lists Series under datetimes)",
                "time-valued data for valid_range_test beyond datetime64 units, lists/tuples of datetime64 / Timestamp / datetime, DatetimeIndex and naive Series",
                "integer carriers when the series has a missing value",
                "valid_range_test with limits that are not exact in the data's own dtype (its docstring: the span is taken in the format of the data, 'without type conversion')"],
    assumptions=["logical values 1 and 3 are exact in every real dtype used"],
)

TESTS = {
    "gross_range_test": [dict(fail_span=[0, 3.5], suspect_span=[2, 3.5]), dict(fail_span=[3.5, 0], suspect_span=[3, 0.5]),
                         # non-dyadic limits with values equal to their float32 roundings
                         dict(fail_span=[-1, 5.3], suspect_span=[-0.9, 0.1], _alphabet="f32")],
    "valid_range_test": [dict(valid_span=[1, 3]), dict(valid_span=[None, 3], end_inclusive=True)],
    "climatology_test": [dict(config=[dict(tspan=[1, 1], period="month", vspan=[0, 2], zspan=[0, 7]),
                                      dict(tspan=["2020-01-01T00:01:00", "2020-01-01T00:02:00"], vspan=[2, 5])])],
    "spike_test": [dict(suspect_threshold=0.5, fail_threshold=1.5),
                   # magnitudes at which float32 arithmetic on the neighbours is no longer exact
                   dict(suspect_threshold=1.5, fail_threshold=3, _alphabet="big")],
    "rate_of_change_test": [dict(threshold=0.02), dict(threshold=1.5, _step=1.5), dict(threshold=0.9, _step=2.25),
                            # monthly sampling (steps of 31 / 29 / 30 days); the threshold separates a 31-day from a 30-day step
                            dict(threshold=7.6e-7, _months=True)],
    "flat_line_test": [dict(suspect_threshold=60, fail_threshold=120, tolerance=1),
                       # irregular whole-minute sampling whose median step is a half minute (90 s)
                       dict(suspect_threshold=90, fail_threshold=180, tolerance=1, _gaps=[60, 120])],
    "attenuated_signal_test": [dict(suspect_threshold=1.2, fail_threshold=0.4), dict(suspect_threshold=1.2, fail_threshold=0.4, test_period=120, check_type="range")],
    "density_inversion_test": [dict(suspect_threshold=0.5, fail_threshold=-1)],
    "location_test": [dict(bbox=[0, 0, 2, 2], range_max=200_000)],
    "speed_test": [dict(suspect_threshold=1000, fail_threshold=3000)],
    "pressure_increasing_test": [dict()],
}


def mk_data(vals, c):
    """vals: list of floats / MISS."""
    import pandas as pd

    has_missing = any(v == MISS for v in vals)
    f = [np.nan if v == MISS else float(v) for v in vals]
    if c == "nd_f8":
        return np.array(f, dtype="f8")
    if c == "nd_f8_nc":
        big = np.zeros(2 * len(f), dtype="f8")
        big[::2] = f
        big[1::2] = 777.0
        return big[::2]
    if c == "list_nan":
        return list(f)
    if c == "list_none":
        return [None if v == MISS else float(v) for v in vals]
    if c == "list_mixed":
        return [(None if i % 2 else np.nan) if v == MISS else float(v) for i, v in enumerate(vals)]
    if c == "tuple_nan":
        return tuple(f)
    if c == "tuple_none":
        return tuple(None if v == MISS else float(v) for v in vals)
    if c == "nd_f4":
        return np.array(f, dtype="f4")
    if c in ("nd_i4", "nd_i8"):
        if has_missing or any(float(v) != int(v) for v in vals):
            return None
        return np.array(f).astype(c[3:])
    if c == "ma_nan":
        return np.ma.MaskedArray(np.array(f), mask=[v == MISS for v in vals])
    if c == "ma_adv":
        return np.ma.MaskedArray(np.array([999.0 if v == MISS else float(v) for v in vals]), mask=[v == MISS for v in vals])
    if c == "ma_i8":  # integer masked array (missing = masked, any integer underneath)
        if any(v != MISS and float(v) != int(v) for v in vals):
            return None
        return np.ma.MaskedArray(np.array([7 if v == MISS else int(v) for v in vals], dtype="int64"), mask=[v == MISS for v in vals])
    if c == "ma_nomask":
        return np.ma.MaskedArray(np.array(f))
    if c == "series":
        return pd.Series(f, dtype="float64")
    if c == "series_shift":
        return pd.Series(f, index=range(10, 10 + len(f)), dtype="float64")
    if c == "series_none":
        return pd.Series([None if v == MISS else float(v) for v in vals], dtype="float64")
    if c == "dask":
        import dask.array as da

        return da.from_array(np.array(f, dtype="f8"), chunks=max(1, len(f)))
    raise KeyError(c)


NS_CARRIERS = ("list_timestamp", "tuple_timestamp", "objarr_timestamp", "dtindex", "series_naive", "dtindex_utc", "series_utc")


def mk_time_ns(ns, c):
    """times given as integer nanoseconds since the epoch -> carriers able to hold nanoseconds"""
    import pandas as pd

    base = np.array(ns, dtype="int64").astype("datetime64[ns]")
    if c == "dt64ns":
        return base
    if c == "list_timestamp":
        return [pd.Timestamp(int(v)) for v in ns]
    if c == "tuple_timestamp":
        return tuple(pd.Timestamp(int(v)) for v in ns)
    if c == "objarr_timestamp":
        a = np.empty(len(ns), dtype=object)
        a[:] = [pd.Timestamp(int(v)) for v in ns]
        return a
    if c == "dtindex":
        return pd.DatetimeIndex(base)
    if c == "dtindex_utc":
        return pd.DatetimeIndex(base, tz="UTC")
    if c == "series_naive":
        return pd.Series(base)
    if c == "series_utc":
        return pd.Series(pd.DatetimeIndex(base, tz="UTC"))
    raise KeyError(c)


def check_ns(case):
    """rate_of_change_test on a 2 s grid whose third sample is 600 ns late; the threshold lies between 1/2 and 1/2.0000006"""
    from ioos_qc import qartod

    x = case["x"]
    n = len(x)
    ns = [int(alpha.T0) * 10 ** 9 + 2 * 10 ** 9 * i + (600 if i == 2 else 0) for i in range(n)]
    data = np.array([np.nan if v == MISS else float(v) for v in x])

    def run(c):
        out = alpha.call(qartod.rate_of_change_test, data, mk_time_ns(ns, c), case["thr"])
        return out if isinstance(out, alpha.Raised) else alpha.flags_of(out)[0]
    canon, res = run("dt64ns"), run(case["carrier"])
    vs = []
    axes = f"tinp={case['carrier']}[ns]"
    if isinstance(canon, alpha.Raised):
        vs.append(V(f"{PROP}|rate_of_change_test|canonical-ns|symptom={canon!r}", "rate_of_change_test raised on datetime64[ns] times", None, repr(canon)))
    elif isinstance(res, alpha.Raised):
        vs.append(V(f"{PROP}|rate_of_change_test|{axes}|symptom={res!r}", f"rate_of_change_test with {axes} raised {res.name}: {res.msg}", canon, repr(res)))
    elif res != canon:
        vs.append(V(f"{PROP}|rate_of_change_test|{axes}|symptom=flags-differ", f"rate_of_change_test with {axes} (nanosecond-resolved instants) returns different flags than with datetime64[ns]", canon, res))
    return vs, True, tuple(res) if isinstance(res, list) else repr(res), 0, 2


def mk_time(secs, c):
    import pandas as pd

    if c == "dt64m" and any(float(s) % 60 for s in secs):
        return None  # not on whole minutes
    frac = any(float(s) != int(s) for s in secs)
    if frac and c in ("dt64s", "list_dt64", "epoch_int_list", "epoch_int_nd", "epoch_i4_nd", "epoch_u4_nd"):
        return None  # the carrier cannot hold fractional seconds
    base = np.array([int(round(float(s) * 1000)) for s in secs], dtype="int64").astype("datetime64[ms]")
    if c.startswith("dt64"):
        return base.astype(f"datetime64[{c[4:]}]")
    pyd = [dt.datetime(1970, 1, 1) + dt.timedelta(milliseconds=int(round(float(s) * 1000))) for s in secs]
    if c == "list_datetime":
        return pyd
    if c == "tuple_datetime":
        return tuple(pyd)
    if c == "list_timestamp":
        return [pd.Timestamp(d) for d in pyd]
    if c == "list_dt64":
        return [np.datetime64(d, "s") for d in pyd]  # whole seconds only (guarded above)
    if c == "dtindex":
        return pd.DatetimeIndex(base.astype("datetime64[ns]"))
    if c == "dtindex_freq":  # an index that carries its (inferred) frequency: fixed step or calendar based (month starts)
        if len(secs) < 3:
            return None
        try:
            return pd.DatetimeIndex(base.astype("datetime64[ns]"), freq="infer")
        except Exception:  # noqa: BLE001
            return None
    if c in ("dtindex_utc_us", "dtindex_utc_s", "series_utc_ms", "dtindex_naive_s"):
        # pandas objects whose resolution is not nanoseconds (what to_datetime(..., unit="s", utc=True) or date_range give),
        # and an aware index in another zone (same instants)
        if frac and c in ("dtindex_utc_s", "dtindex_naive_s"):
            return None
        idx = pd.DatetimeIndex(base.astype("datetime64[ns]"))
        if c == "dtindex_naive_s":
            return idx.as_unit("s")
        idx = idx.tz_localize("UTC")
        unit = {"dtindex_utc_us": "us", "dtindex_utc_s": "s", "series_utc_ms": "ms"}[c]
        idx = idx.as_unit(unit)
        return pd.Series(idx) if c.startswith("series") else idx
    if c == "dtindex_utc":
        return pd.DatetimeIndex(base.astype("datetime64[ns]"), tz="UTC")
    if c == "series_naive":
        return pd.Series(base.astype("datetime64[ns]"))
    if c == "series_shift_naive":
        return pd.Series(base.astype("datetime64[ns]"), index=range(5, 5 + len(secs)))
    if c == "series_utc":
        return pd.Series(pd.DatetimeIndex(base.astype("datetime64[ns]"), tz="UTC"))
    if c == "epoch_int_list":
        return [int(s) for s in secs]
    if c == "epoch_float_list":
        return [float(s) for s in secs]
    if c in ("epoch_i4_nd", "epoch_u4_nd"):
        if frac:
            return None
        return np.array(secs, dtype="int32" if c == "epoch_i4_nd" else "uint32")
    if c in ("series_obj_utc", "index_obj_utc", "series_obj_naive"):
        # pandas containers of dtype object holding python datetimes (UTC-aware or naive)
        import datetime as _dt

        if c == "series_obj_naive":
            return pd.Series(pyd, dtype=object)
        aware = [d.replace(tzinfo=_dt.timezone.utc) for d in pyd]
        return pd.Series(aware, dtype=object) if c == "series_obj_utc" else pd.Index(aware, dtype=object)
    if c == "epoch_int_nd":
        return np.array(secs, dtype="int64")
    if c == "epoch_float_nd":
        return np.array(secs, dtype="float64")
    raise KeyError(c)


def month_starts(n):
    out = []
    y, m = 2020, 1
    for _ in range(n):
        out.append(int((dt.datetime(y, m, 1) - dt.datetime(1970, 1, 1)).total_seconds()))
        m += 1
        if m > 12:
            y, m = y + 1, 1
    return out


def logical_inputs(name, x, step=None, gaps=None, months=False, jitter=False):
    """x: logical series (floats / MISS) -> dict axis -> logical values."""
    n = len(x)
    spec = G.SPECS[name]
    d = {}
    if spec["kind"] == "position":
        d["lon"] = list(x)
        d["lat"] = [(MISS if (i % 3 == 2 and v == MISS) else (1.0 if i % 2 else 2.0)) for i, v in enumerate(x)]
    else:
        d["inp"] = list(x)
    if "z" in spec["needs"]:
        d["zinp"] = [(0.0 if i % 4 == 0 else 5.0) if i % 2 == 0 else (MISS if n > 2 and i == 1 else 6.0) for i in range(n)]   # (surface rows at depth exactly 0)
    if "t" in spec["needs"]:
        if gaps is not None:
            d["tinp"] = alpha.times_from_gaps([gaps[i % len(gaps)] for i in range(max(n - 1, 0))])[:n] if n else []
        else:
            d["tinp"] = alpha.regular_secs(n) if step is None else [alpha.T0 + step * i for i in range(n)]
        if months:
            d["tinp"] = month_starts(n)
        if jitter:  # the same axis with every odd timestamp moved by a third of its step
            t = d["tinp"]
            d["tinp"] = [t[i] + ((t[i + 1] - t[i]) / 3 if (i % 2 and i + 1 < n) else 0) for i in range(n)]
            if all(float(v) == int(v) for v in d["tinp"]):
                d["tinp"] = [int(v) for v in d["tinp"]]
    if name == "pressure_increasing_test":
        d["inp"] = [v for v in x]
    return d


def call_with(name, cfg, logical, carriers, span_tuple=False):
    fn = G.func(name)
    c = dict(cfg)
    if span_tuple:
        c["_tuple"] = True
    kw = G.build_cfg(name, c)
    int_none = name == "valid_range_test" and None in (cfg.get("valid_span") or []) and any(str(c).startswith("nd_i") or c == "ma_i8" for c in carriers.values())
    if False and int_none:
        return None
    for axis, vals in logical.items():
        car = carriers.get(axis)
        if axis == "tinp":
            v = mk_time(vals, car or "dt64ns")
            if v is None:
                return None
            kw[axis] = v
        else:
            v = mk_data(vals, car or "nd_f8")
            if v is None:
                return None
            kw[axis] = v
    out = alpha.call(fn, **kw)
    if isinstance(out, alpha.Raised):
        return out
    vals, _, _ = alpha.flags_of(out)
    return vals


VRT_CARRIERS = ("dt64us", "dt64ms", "dt64s", "list_dt64", "tuple_dt64", "dtindex", "series_naive", "list_timestamp", "list_datetime")


def vrt_data(x, c):
    """time-valued data for valid_range_test: offsets in seconds from T0 / MISS -> carrier c (None: cannot hold it)"""
    import pandas as pd

    base = np.array([np.datetime64("NaT") if v == MISS else np.datetime64(int(alpha.T0 + v), "s") for v in x], dtype="datetime64[s]")
    if c == "dt64ns":
        return base.astype("datetime64[ns]")
    if c in ("dt64us", "dt64ms", "dt64s"):
        return base.astype(f"datetime64[{c[4:]}]")
    if c == "list_dt64":
        return list(base)
    if c == "tuple_dt64":
        return tuple(base)
    if c == "dtindex":
        return pd.DatetimeIndex(base.astype("datetime64[ns]"))
    if c == "series_naive":
        return pd.Series(base.astype("datetime64[ns]"))
    if c == "list_timestamp":
        return [pd.NaT if v == MISS else pd.Timestamp(int(alpha.T0 + v), unit="s") for v in x]
    if c == "list_datetime":
        if any(v == MISS for v in x):
            return None
        return [dt.datetime(1970, 1, 1) + dt.timedelta(seconds=int(alpha.T0 + v)) for v in x]
    raise KeyError(c)


def check_vrt(case):
    """valid_range_test on time-valued data: the instants in another carrier / unit, same span (nanosecond datetime64)"""
    from ioos_qc import axds

    x, cfg = case["x"], case["cfg"]
    mk = lambda v: None if v is None else np.datetime64(int(alpha.T0 + v), "s").astype("datetime64[ns]")
    span = (mk(cfg["lo"]), mk(cfg["hi"]))
    kw = {k: v for k, v in cfg.items() if k not in ("lo", "hi")}

    def run(c):
        d = vrt_data(x, c)
        if d is None:
            return None
        out = alpha.call(axds.valid_range_test, d, span, **kw)
        return out if isinstance(out, alpha.Raised) else alpha.flags_of(out)[0]
    canon = run("dt64ns")
    res = run(case["carrier"])
    if res is None:
        return [], False, None, 1, 1
    vs = []
    axes = f"inp={case['carrier']}"
    if isinstance(canon, alpha.Raised):
        vs.append(V(f"{PROP}|valid_range_test[time-valued]|canonical|symptom={canon!r}", f"valid_range_test raised {canon.name} on datetime64[ns] data", None, repr(canon)))
    elif isinstance(res, alpha.Raised):
        vs.append(V(f"{PROP}|valid_range_test[time-valued]|{axes}|symptom={res!r}", f"valid_range_test with {axes} raised {res.name}: {res.msg}", canon, repr(res)))
    elif res != canon:
        vs.append(V(f"{PROP}|valid_range_test[time-valued]|{axes}|symptom=flags-differ", f"valid_range_test on time-valued data with {axes} returns different flags than with datetime64[ns]", canon, res))
    return vs, True, tuple(res) if isinstance(res, list) else repr(res), 0, 2


def check_case(case):
    if case.get("fn") == "valid_range_time":
        return check_vrt(case)
    if case.get("fn") == "roc_ns":
        return check_ns(case)
    name, cfg, x = case["fn"], case["cfg"], case["x"]
    logical = logical_inputs(name, x, cfg.get("_step"), cfg.get("_gaps"), cfg.get("_months", False))
    canon = call_with(name, cfg, logical, {})
    if case.get("pre_jitter"):
        # an earlier call in the same process with the same carriers on ANOTHER time axis of the same shape
        call_with(name, cfg, logical_inputs(name, x, cfg.get("_step"), cfg.get("_gaps"), cfg.get("_months", False), jitter=True), case["carriers"])
    res = call_with(name, cfg, logical, case["carriers"], case.get("span_tuple", False))
    if res is None:
        return [], False, None, 1, 1
    vs = []
    axes = "+".join(f"{a}={c}" for a, c in sorted(case["carriers"].items())) or "span=tuple"
    failed = isinstance(res, alpha.Raised) or (not isinstance(canon, alpha.Raised) and res != canon)
    if failed and len(case["carriers"]) > 1 and not isinstance(canon, alpha.Raised):
        # attribute a multi-carrier disagreement to the single carrier that already causes it, if any
        for a, c in sorted(case["carriers"].items()):
            single = call_with(name, cfg, logical, {a: c})
            if single is not None and (isinstance(single, alpha.Raised) or single != canon):
                if type(single) is type(res) and (not isinstance(single, alpha.Raised) or single.name == res.name):
                    axes = f"{a}={c}"
                    break
    if isinstance(canon, alpha.Raised):
        vs.append(V(f"{PROP}|{name}|canonical|symptom={canon!r}", f"{name} raised {canon.name} on canonical carriers: {canon.msg}", None, repr(canon)))
    elif isinstance(res, alpha.Raised):
        vs.append(V(f"{PROP}|{name}|{axes}|symptom={res!r}", f"{name} with {axes} raised {res.name}: {res.msg}", canon, repr(res)))
    elif res != canon:
        vs.append(V(f"{PROP}|{name}|{axes}|symptom=flags-differ", f"{name} with {axes} returns different flags than with canonical carriers", canon, res))
    obs = tuple(res) if isinstance(res, list) else repr(res)
    return vs, True, obs, 0, 2


def replay(case):
    return check_case(case)[0]


def tasks(tier):
    ts = []
    for name, cfgs in TESTS.items():
        for ci in range(len(cfgs)):
            ts.append((name, ci, NMAX[tier]))
    ts.append(("valid_range_time", 0, NMAX[tier]))
    ts.append(("roc_ns", 0, NMAX[tier]))
    return ts


def run_task(task, acc):
    name, ci, n = task
    if name == "roc_ns":
        def gen_n():
            for x in alpha.all_seqs((1.0, 3.0, MISS), 3, max(n, 4)):
                for thr in (0.99999985, 1.0, 0.5):
                    for c in NS_CARRIERS:
                        yield dict(fn=name, x=list(x), thr=thr, carrier=c)
        run_cases(acc, gen_n(), check_case)
        return
    if name == "valid_range_time":
        def gen_v():
            for cfg in (dict(lo=60, hi=180), dict(lo=None, hi=120, end_inclusive=True), dict(lo=60, hi=None, start_inclusive=False)):
                for x in alpha.all_seqs((0, 60, 120, 180, 240, MISS), 1, n):
                    for c in VRT_CARRIERS:
                        yield dict(fn=name, cfg=cfg, x=list(x), carrier=c)
        run_cases(acc, gen_v(), check_case)
        return
    cfg = TESTS[name][ci]
    spec = G.SPECS[name]
    alphabet = (1.0, 3.0, MISS) if name != "pressure_increasing_test" else (1.0, 3.0, 2.0)
    if cfg.get("_alphabet") == "big":
        alphabet = (float(2 ** 24), float(2 ** 24 + 2), float(2 ** 24 + 4), MISS)
    if cfg.get("_alphabet") == "f32":
        alphabet = tuple(float(np.float32(v)) for v in (0.1, -0.9, 5.3)) + (MISS,)
    data_axes = [a for a in ("inp", "lon", "lat", "zinp") if a in logical_inputs(name, [1.0])]
    has_t = "t" in spec["needs"]

    def gen():
        long_x = alpha.debruijn(tuple(alphabet), 4) * 2
        if has_t:
            for x in (list(long_x), list(alpha.xl(tuple(alphabet), 1500, 3))):
                for c in TIME_CARRIERS[1:]:
                    yield dict(fn=name, cfg=cfg, x=x, carriers={"tinp": c}, pre_jitter=True)
        for x in [list(xx) for xx in alpha.all_seqs(alphabet, 0, n)] + [long_x]:
            x = list(x)
            for axis in data_axes:
                for c in DATA_CARRIERS[1:]:
                    yield dict(fn=name, cfg=cfg, x=x, carriers={axis: c})
            if len(data_axes) > 1:
                for c in DATA_CARRIERS[1:]:
                    yield dict(fn=name, cfg=cfg, x=x, carriers={a: c for a in data_axes})
            if has_t:
                for c in TIME_CARRIERS[1:]:
                    yield dict(fn=name, cfg=cfg, x=x, carriers={"tinp": c})
                if len(x) <= 2:
                    for dc in DATA_CARRIERS[1:]:
                        for tc in TIME_CARRIERS[1:]:
                            yield dict(fn=name, cfg=cfg, x=x, carriers={data_axes[0]: dc, "tinp": tc})
            if any(isinstance(v, list) for v in cfg.values()):
                yield dict(fn=name, cfg=cfg, x=x, carriers={}, span_tuple=True)
    run_cases(acc, gen(), check_case)
