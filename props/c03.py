"""C03 - gross_range_test / valid_range_test: inclusive interval membership, fail before suspect."""
from __future__ import annotations

import itertools

import numpy as np

from mc import alpha
from refmodel import qc as R

from .common import judge_flags, run_cases

PROP = "C03"
B = (0.0, 1.0, 2.0, 3.0)
VALS = (-1.0, 0.0, 0.5, 1.0, 1.5, 2.0, 2.5, 3.0, 4.0, alpha.NAN)
NMAX = {"quick": 2, "thorough": 4}
BUDGET = {"quick": 600, "thorough": 3000}
PRODUCT = [list(VALS), list(reversed(VALS)), list(VALS[3:] + VALS[:3])]

# datetime variant (seconds relative to T0)
T_LO, T_HI = 100, 200
INSTANTS = (99, 100, 150, 200, 201, "NaT")
TB = (None, T_LO, T_HI)

META = dict(
    rule="gross_range_test: every (fail span, suspect span) over {0,1,2,3}^2 x ({None}+{0,1,2,3}^2) (both orders, "
         "degenerate, not-nested ones must raise ValueError), span as list and tuple, x product series of 10 values "
         "(below/on/between/above every bound, NaN) in 3 orders + every series of length<=N; valid_range_test: every "
         "span over ({None,0,1,2,3})^2 as given x 4 inclusivity settings (+defaults) on the same series, integer-typed data with open and closed spans, float32/float16 data against non-dyadic limits (flags follow the exact values), 2-D inputs in C / Fortran / "
         "transposed layout (flags stay with their elements), every nested (fail, suspect) pair of spans on the decimal tenths grid -0.7..0.9 with each grid value and its two float neighbours as data (endpoint membership exact whatever arithmetic decides it), and the "
         "datetime64 variant (6 instants incl. NaT, spans over {None,t0,t1}^2). Each state = one call of the real "
         "function, judged per point by the scalar reference. Scale: a 12345-point mixed series, its sorted gap-free versions (ascending / descending, every value repeated > 1000 times), 3000-point integer series and 5000-instant datetime series (mixed and sorted). non-trivial = reference demands SUSPECT/FAIL/MISSING "
         "or ValueError",
    bounds={"quick": {"max_len": 2, "values": list(VALS), "bounds": list(B)},
            "thorough": {"max_len": 4, "values": list(VALS), "bounds": list(B)}},
    not_judged=["malformed spans (length != 2)"],
    assumptions=["values are region representatives: one below, on, between and above every bound"],
)


LONG = [VALS[(i * 7 + i // 10) % len(VALS)] for i in range(12345)]


SORTED = sorted(v for v in LONG if v != alpha.NAN)   # gap-free, non-decreasing, every value repeated > 1000 times
SORTED_SHORT = SORTED[::5]


def series_space(n):
    yield from PRODUCT
    yield LONG
    yield SORTED
    yield SORTED_SHORT
    yield list(reversed(SORTED_SHORT))
    for x in alpha.all_seqs(VALS, 0, n):
        yield list(x)


F32B = (0.1, 0.9, 5.3)


def tasks(tier):
    n = NMAX[tier]
    ts = [("f32",), ("layout",), ("valid_int",), ("int_ma",), ("valid_as",), ("nearspan",), ("valid_far",), ("decimal",)]
    for f in itertools.product(B, repeat=2):
        ts.append(("gross", list(f), n))
    for lo in (None,) + B:
        ts.append(("valid", lo, n))
    ts.append(("valid_dt",))
    return ts


def check_case(case):
    from ioos_qc import axds, qartod

    fn = case["fn"]
    if fn == "gross":
        x = case["x"]
        conv = tuple if case.get("span_carrier") == "tuple" else list
        fail = conv(case["fail"])
        kw = {}
        if case["suspect"] is not None:
            kw["suspect_span"] = conv(case["suspect"])
        out = alpha.call(qartod.gross_range_test, alpha.nd(x), fail, **kw)
        acceptable = R.gross_range(alpha.ref(x), case["fail"], case["suspect"])
        vs, obs = judge_flags(PROP, "gross_range_test", out, acceptable, len(x),
                              extra_sig="suspect=" + ("given" if case["suspect"] is not None else "absent"),
                              classify=lambda i: "value")
        return vs, isinstance(acceptable, str) or alpha.is_nontrivial(acceptable), obs, 0
    if fn == "gross_f32":
        # float32 data against non-dyadic python-float limits: the flag must follow the exact values
        x = case["x"]
        inp = np.array(x, dtype=case["dtype"])
        exact = [float(v) for v in inp.astype("float64")]
        kw = {}
        if case["suspect"] is not None:
            kw["suspect_span"] = list(case["suspect"])
        out = alpha.call(qartod.gross_range_test, inp, list(case["fail"]), **kw)
        acceptable = R.gross_range(exact, case["fail"], case["suspect"])
        vs, obs = judge_flags(PROP, "gross_range_test", out, acceptable, len(x), extra_sig=f"dtype={case['dtype']}|non-dyadic-bounds", classify=lambda i: "value")
        return vs, True, obs, 0
    if fn == "layout":
        # 2-D input in C order, Fortran order and as a transposed view: flags stay with their elements
        base = np.array(case["grid"], dtype="float64")
        arr = {"C": base, "F": np.asfortranarray(base), "T": np.ascontiguousarray(base.T).T}[case["order"]]
        if case["which"] == "gross":
            out = alpha.call(qartod.gross_range_test, arr, [0, 3], suspect_span=[1, 2])
            ref = R.gross_range([float(v) if v == v else None for v in base.reshape(-1)], [0, 3], [1, 2])
        else:
            out = alpha.call(axds.valid_range_test, arr, [1, 3])
            ref = R.valid_range([float(v) if v == v else None for v in base.reshape(-1)], 1, 3)
        vs = []
        if isinstance(out, alpha.Raised):
            vs.append(dict(signature=f"{PROP}|{case['which']}|2d-{case['order']}|symptom=raises:{out.name}", what=f"{case['which']} range test raised {out.name} on a 2-D {case['order']}-ordered array", expected=None, observed=repr(out)))
            return vs, True, None, 0
        got = np.ma.getdata(np.asanyarray(out))
        exp = np.array([next(iter(a)) for a in ref]).reshape(base.shape)
        if got.shape != base.shape or not np.array_equal(got, exp):
            vs.append(dict(signature=f"{PROP}|{case['which']}|2d-{case['order']}|symptom=flags-misplaced", what=f"{case['which']} range test on a 2-D {case['order']}-ordered array puts flags on the wrong elements", expected=exp.tolist(), observed=got.tolist()))
        return vs, True, tuple(got.reshape(-1).tolist()), 0
    if fn == "valid_far":
        mul = {"D": 1, "h": 24, "s": 86400}[case["unit"]]
        mk = lambda v: None if v is None else np.datetime64(int(v) * mul, case["unit"])
        inp = np.array([int(v) * mul for v in case["x"]], dtype="int64").astype(f"datetime64[{case['unit']}]")
        si, ei = case["incl"] if case["incl"] is not None else (True, False)
        kw = {} if case["incl"] is None else dict(start_inclusive=si, end_inclusive=ei)
        out = alpha.call(axds.valid_range_test, inp, (mk(case["lo"]), mk(case["hi"])), **kw)
        acceptable = R.valid_range([float(v) for v in case["x"]], case["lo"], case["hi"], si, ei)
        vs, obs = judge_flags(PROP, "valid_range_test", out, acceptable, len(case["x"]), extra_sig=f"datetime[{case['unit']}]|far-dates", classify=lambda i: "value")
        return vs, True, obs, 0
    if fn == "gross_int_ma":
        # integer-typed masked array (a packed variable with a fill value): missing = masked, any integer underneath
        x = case["x"]
        miss = [v is None for v in x]
        inp = np.ma.MaskedArray(np.array([-999 if m else int(v) for v, m in zip(x, miss)], dtype=case["dtype"]), mask=miss if case["mask"] == "array" or any(miss) else False)
        kw = {}
        if case["suspect"] is not None:
            kw["suspect_span"] = list(case["suspect"])
        out = alpha.call(qartod.gross_range_test, inp, list(case["fail"]), **kw)
        acceptable = R.gross_range([None if m else float(v) for v, m in zip(x, miss)], case["fail"], case["suspect"])
        vs, obs = judge_flags(PROP, "gross_range_test", out, acceptable, len(x), extra_sig=f"integer-masked-array|mask={case['mask']}", classify=lambda i: "value")
        return vs, True, obs, 0
    if fn == "valid_as":
        # the caller names the dtype the comparison is to be made in (documented `dtype` argument): integer data compared
        # as float64 against fractional bounds, second-resolution instants compared as milliseconds
        x = case["x"]
        si, ei = case["incl"] if case["incl"] is not None else (True, False)
        kw = {} if case["incl"] is None else dict(start_inclusive=si, end_inclusive=ei)
        if case["kind"] == "int":
            out = alpha.call(axds.valid_range_test, np.array(x, dtype="int64"), (case["lo"], case["hi"]), dtype=np.dtype("float64"), **kw)
            acceptable = R.valid_range([float(v) for v in x], case["lo"], case["hi"], si, ei)
        else:
            base = np.datetime64(alpha.T0, "s")
            mk = lambda v: None if v is None else (base.astype("datetime64[ms]") + np.timedelta64(int(round(v * 1000)), "ms"))
            inp = np.array([base + np.timedelta64(int(v), "s") for v in x], dtype="datetime64[s]")
            out = alpha.call(axds.valid_range_test, inp, (mk(case["lo"]), mk(case["hi"])), dtype=np.dtype("datetime64[ms]"), **kw)
            acceptable = R.valid_range([float(v) for v in x], case["lo"], case["hi"], si, ei)
        vs, obs = judge_flags(PROP, "valid_range_test", out, acceptable, len(x), extra_sig=f"explicit-dtype|{case['kind']}", classify=lambda i: "value")
        return vs, True, obs, 0
    if fn == "valid_int":
        # integer data (no missing values possible) with open / closed spans
        x = case["x"]
        kw = {}
        if case["incl"] is not None:
            kw = dict(start_inclusive=case["incl"][0], end_inclusive=case["incl"][1])
        si, ei = case["incl"] if case["incl"] is not None else (True, False)
        lo = None if case["lo"] is None else int(case["lo"])
        hi = None if case["hi"] is None else int(case["hi"])
        out = alpha.call(axds.valid_range_test, np.array(x, dtype=case["dtype"]), [lo, hi], **kw)
        acceptable = R.valid_range([float(v) for v in x], lo, hi, si, ei)
        opened = "open" if (lo is None or hi is None) else "closed"
        vs, obs = judge_flags(PROP, "valid_range_test", out, acceptable, len(x), extra_sig=f"integer-data|{opened}-span", classify=lambda i: "value")
        return vs, True, obs, 0
    if fn == "valid":
        x = case["x"]
        kw = {}
        if case["incl"] is not None:
            kw = dict(start_inclusive=case["incl"][0], end_inclusive=case["incl"][1])
        si, ei = case["incl"] if case["incl"] is not None else (True, False)
        span = [case["lo"], case["hi"]]
        if case.get("span_carrier") == "tuple":
            span = tuple(span)
        out = alpha.call(axds.valid_range_test, alpha.nd(x), span, **kw)
        acceptable = R.valid_range(alpha.ref(x), case["lo"], case["hi"], si, ei)
        vs, obs = judge_flags(PROP, "valid_range_test", out, acceptable, len(x),
                              extra_sig=f"numeric|start_inclusive={si}|end_inclusive={ei}", classify=lambda i: "value")
        return vs, alpha.is_nontrivial(acceptable), obs, 0
    if fn == "valid_dt":
        x = case["x"]
        base = np.datetime64(alpha.T0, "s").astype("datetime64[ns]")

        def mk(v):
            if v is None:
                return None
            if v == "NaT":
                return np.datetime64("NaT", "ns")
            return base + np.timedelta64(int(v), "s")

        inp = np.array([mk(v) for v in x], dtype="datetime64[ns]")
        if case.get("carrier") in ("list_dt64s", "tuple_dt64s", "nd_dt64s"):
            # the instants as np.datetime64 scalars / array in SECONDS (NaT for missing) against a span in nanoseconds
            vals_s = [np.datetime64("NaT", "s") if v == "NaT" else (np.datetime64(alpha.T0, "s") + np.timedelta64(int(v), "s")) for v in x]
            inp = {"list_dt64s": list, "tuple_dt64s": tuple, "nd_dt64s": lambda a: np.array(a, dtype="datetime64[s]")}[case["carrier"]](vals_s)
        span = (mk(case["lo"]), mk(case["hi"]))
        kw = {}
        if case["incl"] is not None:
            kw = dict(start_inclusive=case["incl"][0], end_inclusive=case["incl"][1])
        si, ei = case["incl"] if case["incl"] is not None else (True, False)
        out = alpha.call(axds.valid_range_test, inp, span, **kw)
        acceptable = R.valid_range([None if v == "NaT" else float(v) for v in x], case["lo"], case["hi"], si, ei)
        vs, obs = judge_flags(PROP, "valid_range_test", out, acceptable, len(x),
                              extra_sig=f"datetime|start_inclusive={si}|end_inclusive={ei}", classify=lambda i: "value")
        return vs, alpha.is_nontrivial(acceptable), obs, 0
    raise KeyError(fn)


def replay(case):
    return check_case(case)[0]


INCL = (None, (True, False), (True, True), (False, False), (False, True))


def run_task(task, acc):
    kind = task[0]
    if kind == "gross":
        _, fail, n = task
        suspects = [None] + [list(s) for s in itertools.product(B, repeat=2)]

        def gen():
            for s in suspects:
                for sc in ("list", "tuple"):
                    for x in (series_space(n) if sc == "list" else PRODUCT[:1]):
                        yield dict(fn="gross", x=x, fail=fail, suspect=s, span_carrier=sc)

        run_cases(acc, gen(), check_case)
    elif kind == "valid":
        _, lo, n = task

        def gen():
            for hi in (None,) + B:
                for incl in INCL:
                    for sc in ("list", "tuple"):
                        for x in (series_space(n) if sc == "list" else PRODUCT[:1]):
                            yield dict(fn="valid", x=x, lo=lo, hi=hi, incl=None if incl is None else list(incl), span_carrier=sc)

        run_cases(acc, gen(), check_case)
    elif kind == "nearspan":
        # a suspect span reaching a hair outside the fail span must be rejected like any other span outside it;
        # one ending exactly on the fail bound (or a hair inside) is accepted
        def gen():
            x = [-1.0, 0.0, 10.0, 39.99995, 40.0, 40.00005, 41.0]
            for fail in ([0, 40], [40, 0], [0.0, 0.3]):
                lo, hi = min(fail), max(fail)
                for dlo in (0.0, -1e-9, 1e-9, -1e-5 * max(abs(lo), 1e-3)):
                    for dhi in (0.0, 1e-9, -1e-9, 1e-4 * hi, np.nextafter(hi, np.inf) - hi):
                        yield dict(fn="gross", x=x, fail=fail, suspect=[lo + dlo, hi + dhi], span_carrier="list")
            yield dict(fn="gross", x=x, fail=[0.0, 0.3], suspect=[0.0, 0.1 + 0.2], span_carrier="list")
        run_cases(acc, gen(), check_case)
    elif kind == "decimal":
        # spans and data written in decimal tenths (not representable in binary): a value exactly on an endpoint is inside,
        # its float neighbours fall on the side they are on - whatever arithmetic the implementation uses to decide
        def gen():
            grid = [k / 10 for k in range(-7, 10)]
            x = []
            for g in grid:
                x += [float(np.nextafter(g, -np.inf)), g, float(np.nextafter(g, np.inf))]
            for i, flo in enumerate(grid):
                for fhi in grid[i:]:
                    yield dict(fn="gross", x=x, fail=[flo, fhi], suspect=None, span_carrier="list")
                    inner = [g for g in grid if flo <= g <= fhi]
                    for j, slo in enumerate(inner):
                        for shi in inner[j:]:
                            yield dict(fn="gross", x=x, fail=[flo, fhi], suspect=[slo, shi], span_carrier="list")
        run_cases(acc, gen(), check_case)
    elif kind == "valid_far":
        # coarse datetime units reaching far beyond the range of nanosecond timestamps
        def gen():
            days = [-200000, -1, 0, 1, 102000, 102272, 111000, 200000]   # days since 1970 (1422 .. 2517)
            for unit in ("D", "h", "s"):
                for lo in (None, -1, 102000, 111000):
                    for hi in (None, 102272, 111000, 200000):
                        for incl in INCL:
                            yield dict(fn="valid_far", x=days, unit=unit, lo=lo, hi=hi, incl=None if incl is None else list(incl))
        run_cases(acc, gen(), check_case)
    elif kind == "int_ma":
        def gen():
            for dt_ in ("int64", "int16"):
                for x in alpha.all_seqs((-1, 0, 2, 3, 4, None), 1, 3):
                    for fail in ([0, 3], [3, 0], [2, 2]):
                        for suspect in (None, [1, 2]):
                            if suspect is not None and fail == [2, 2]:
                                continue
                            for mask in ("array", "auto"):
                                yield dict(fn="gross_int_ma", x=list(x), dtype=dt_, fail=fail, suspect=suspect, mask=mask)
        run_cases(acc, gen(), check_case)
    elif kind == "valid_as":
        def gen():
            for incl in INCL:
                for lo in (None, 0.5, 1.0, 1.5):
                    for hi in (None, 2.5, 3.0, 0.5):
                        for x in ([0, 1, 2, 3, 4], [3, 1], [2]):
                            yield dict(fn="valid_as", kind="int", x=x, lo=lo, hi=hi, incl=None if incl is None else list(incl))
                            yield dict(fn="valid_as", kind="dt", x=x, lo=lo, hi=hi, incl=None if incl is None else list(incl))
        run_cases(acc, gen(), check_case)
    elif kind == "valid_int":
        def gen():
            xs = [-1, 0, 1, 2, 3, 4]
            for dt_ in ("int32", "int64", "uint8"):
                vals = [v for v in xs if not (dt_ == "uint8" and v < 0)]
                for lo in (None, 0, 1, 3):
                    for hi in (None, 0, 2, 3):
                        for incl in INCL:
                            yield dict(fn="valid_int", x=vals, dtype=dt_, lo=lo, hi=hi, incl=None if incl is None else list(incl))
                            yield dict(fn="valid_int", x=list(reversed(vals))[:3], dtype=dt_, lo=lo, hi=hi, incl=None if incl is None else list(incl))
                            if dt_ != "int32":
                                big = list(alpha.xl(tuple(vals), 3000, 3))
                                yield dict(fn="valid_int", x=big, dtype=dt_, lo=lo, hi=hi, incl=None if incl is None else list(incl))
                                yield dict(fn="valid_int", x=sorted(big), dtype=dt_, lo=lo, hi=hi, incl=None if incl is None else list(incl))
        run_cases(acc, gen(), check_case)
    elif kind == "f32":
        def gen():
            vals = []
            for b in F32B + tuple(-v for v in F32B):
                for dt_ in ("float32", "float16"):
                    v = float(np.array(b, dtype=dt_))
                    vals.append((dt_, v))
            for dt_ in ("float32", "float16"):
                xs = [v for d, v in vals if d == dt_] + [0.0, 1.0]
                for fail in ([-0.9, 5.3], [5.3, -0.9], [0.1, 0.9], [-5.3, -0.1]):
                    for suspect in (None, [0.1, 0.9], [-0.9, 0.9]):
                        if suspect is not None and (min(suspect) < min(fail) or max(suspect) > max(fail)):
                            continue
                        yield dict(fn="gross_f32", x=xs, dtype=dt_, fail=fail, suspect=suspect)
                        for v in xs:
                            yield dict(fn="gross_f32", x=[v], dtype=dt_, fail=fail, suspect=suspect)
        run_cases(acc, gen(), check_case)
    elif kind == "layout":
        def gen():
            grids = [[[0.0, 5.0, 1.5], [1.0, 2.5, -1.0]], [[float("nan"), 3.0], [4.0, 0.5], [2.0, 1.0]], [[1.0, 2.0, 9.0, 0.0]]]
            for g in grids:
                for order in ("C", "F", "T"):
                    for which in ("gross", "valid"):
                        yield dict(fn="layout", grid=g, order=order, which=which)
        run_cases(acc, gen(), check_case)
    elif kind == "valid_dt":
        def gen():
            series = [list(INSTANTS), list(reversed(INSTANTS))] + [list(x) for x in alpha.all_seqs(INSTANTS, 0, 2)]
            long_mixed = list(alpha.xl(INSTANTS, 5000, 3))
            series += [long_mixed, sorted(v for v in long_mixed if v != "NaT"), sorted((v for v in long_mixed if v != "NaT"), reverse=True)]
            for lo in TB:
                for hi in TB:
                    for incl in INCL:
                        for x in series:
                            yield dict(fn="valid_dt", x=x, lo=lo, hi=hi, incl=None if incl is None else list(incl))
                            if 0 < len(x) <= 6:
                                for carrier in ("list_dt64s", "tuple_dt64s", "nd_dt64s"):
                                    yield dict(fn="valid_dt", x=x, lo=lo, hi=hi, incl=None if incl is None else list(incl), carrier=carrier)

        run_cases(acc, gen(), check_case)
