"""C18 - a test that cannot run drops out without disturbing the rest of the run (fault placements)."""
from __future__ import annotations

import itertools

import numpy as np

from mc import alpha

from . import streams_common as S
from .common import V, run_cases

PROP = "C18"
BUDGET = {"quick": 900, "thorough": 3400}

HEALTHY = {
    "gross": ("qartod", "gross_range_test", dict(fail_span=[0, 8], suspect_span=[0, 4])),
    "spike": ("qartod", "spike_test", dict(suspect_threshold=1, fail_threshold=5)),
    "probe": ("qartod", "vprobe_test", dict(code=3)),
    "press": ("argo", "pressure_increasing_test", None),
}
FAULTS = {
    "unknown-module": ("nomod", "some_test", dict(a=1)),
    "unknown-test": ("qartod", "not_a_test", dict(a=1)),
    "unknown-test-odd-name": ("qartod", "gross-range test", dict(a=1)),   # an unknown name that is not even an identifier
    "rejected-params": ("qartod", "attenuated_signal_test", dict(suspect_threshold=1, fail_threshold=0.5, check_type="nope")),
    "rejected-span": ("qartod", "location_test", dict(bbox=[0, 1, 2])),
    "missing-input": ("qartod", "climatology_test", dict(config=[dict(tspan=[1, 12], period="month", vspan=[0, 5])])),
    "raises": ("qartod", "vraise_test", dict(boom=1)),
    "rejected-mapping": ("axds", "valid_range_test", dict(valid_span=dict(min=0, max=40))),  # a (rejected) parameter whose value is itself a mapping
    "aggregate-entry": ("qartod", "aggregate", None),
    "absent-stream-two-tests": None,  # two adjacent entries for a stream id that is not in the data
    "absent-stream": None,  # a healthy entry configured for a stream id that is not in the data
    "no-axes-stream": None,
    "same-unknown-module-twice": None,  # the SAME unknown module name on two streams, naming tests that exist in qartod
    "needs-time": ("qartod", "rate_of_change_test", dict(threshold=1)),   # (front ends without a time axis only) a test that needs times
    "off-time-stream": None,  # (xarray:twodims only) a time-dependent test on a variable that is not on the time dimension  # (xarray:twodims only) a position test on a variable that lives on another dimension without lat/lon
}
PLACEMENTS = ("same-stream", "other-stream", "other-context", "other-context-window")

META = dict(
    rule="fault placements: configs with 1-2 healthy tests (gross_range, spike, probe, pressure_increasing) on stream v "
         "and EVERY placement of 1-2 failing entries from 8 fault kinds (unknown module, unknown test, parameters the "
         "function rejects [2 kinds], required input (depth) not supplied by the stream, function raising while "
         "evaluating, the 'aggregate' entry, stream id absent from the data, listed before and after the healthy stream): in the same stream in every order "
         "relative to the healthy entries, in another stream, in another context without and with a window; on each of "
         "the 9 front-end variants plus NumpyStream with a dict input and no time axis and XarrayStream with a second variable on another "
         "dimension without axes (a position test on it cannot run); results collected as list and dict. Oracle: the run and both collections complete "
         "without raising; no failing entry contributes a result; every healthy (stream,test) result equals, bit for "
         "bit, the result of the configuration that contains only that entry, on the same front end. Scale: 3-25 contexts in which one function cannot run followed / preceded by the same function healthy; tables with 12-40 further measured columns. non-trivial = every "
         "case (each contains a fault)",
    bounds={"quick": {"healthy": "1..2", "faults": "1..2", "rows": 4}, "thorough": {"healthy": "1..2", "faults": "1..3", "rows": "3,4,5"}},
    not_judged=["absent stream id on array-input NumpyStream / QcConfig.run (stream ids are ignored by design)"],
    assumptions=["differential oracle against the same front end (so cells where C05 has a known finding stay usable)"],
)


def entry(mod, test, kw):
    return (mod, test, kw)


def build_stream(entries):
    d = {}
    for mod, test, kw in entries:
        d.setdefault(mod, {})[test] = kw
    return d


def make_contexts(case):
    """-> (contexts list, healthy keys [(ctx_index, stream, module, test)], fault keys)"""
    healthy = [HEALTHY[h] for h in case["healthy"]]
    faults = case["faults"]
    order = case["order"]  # permutation over healthy+same-stream faults
    main = []
    others = {}
    ctx2 = []
    fault_keys = []
    same = []
    for f, place in faults:
        if f == "absent-stream":
            others.setdefault("ghost", []).append(HEALTHY["gross"])
            fault_keys.append(("ghost", "gross_range_test"))
            continue
        if f == "absent-stream-two-tests":
            others.setdefault("ghost2", []).extend([HEALTHY["gross"], HEALTHY["spike"]])
            fault_keys.extend([("ghost2", "gross_range_test"), ("ghost2", "spike_test")])
            continue
        if f == "no-axes-stream":
            others.setdefault("u", []).append(("qartod", "location_test", dict(bbox=[-10, -10, 30, 10])))
            fault_keys.append(("u", "location_test"))
            continue
        if f == "same-unknown-module-twice":
            e = ("qartood", "rate_of_change_test", dict(threshold=1))
            same.append(e)
            others.setdefault("w", []).append(e)
            others.setdefault("w", []).append(("qartood", "flat_line_test", dict(suspect_threshold=60, fail_threshold=120)))
            fault_keys.extend([("v", "rate_of_change_test"), ("w", "rate_of_change_test"), ("w", "flat_line_test")])
            continue
        if f == "off-time-stream":
            others.setdefault("u", []).append(("qartod", "rate_of_change_test", dict(threshold=1)))
            fault_keys.append(("u", "rate_of_change_test"))
            continue
        e = FAULTS[f]
        if place == "same-stream":
            same.append(e)
            fault_keys.append(("v", e[1]))
        elif place == "other-stream":
            others.setdefault("w", []).append(e)
            fault_keys.append(("w", e[1]))
        else:
            ctx2.append((e, place))
            fault_keys.append(("v", e[1]))
    pool = healthy + same
    main = [pool[i] for i in order] if order else pool
    streams = {}
    if case.get("ghost_first"):
        for sid, es in others.items():
            if sid.startswith("ghost"):
                streams[sid] = build_stream(es)
    streams["v"] = build_stream(main)
    for sid, es in others.items():
        if sid not in streams:
            streams[sid] = build_stream(es)
    ctxs = [dict(streams=streams)]
    if case.get("main_window"):
        ctxs[0]["start"], ctxs[0]["end"] = S.T0 + S.DAY, S.T0 + 3 * S.DAY
    for e, place in ctx2:
        c = dict(streams={"v": build_stream([e])})
        if place == "other-context-window":
            c["start"], c["end"] = S.T0 + S.DAY, S.T0 + 3 * S.DAY
        else:
            c["start"], c["end"] = S.T0 - 5 * S.DAY, None  # a different (all-covering) context
        ctxs.append(c)
    return ctxs, [("v", h[1]) for h in healthy], fault_keys


def run_and_collect(fe, tab, cfgd):
    """-> dict form flattened {(stream,test): flags}, list form {(stream,test): flags} ; raises propagate as Raised."""
    import warnings

    from ioos_qc.results import collect_results

    if fe == "qcconfig":
        from ioos_qc.config import QcConfig

        kw = dict(inp=list(tab["v"]), tinp=alpha.dt64(tab["time"]))
        if "z" in tab:
            kw["zinp"] = list(tab["z"])
        if "lat" in tab:
            kw["lat"], kw["lon"] = list(tab["lat"]), list(tab["lon"])
        with warnings.catch_warnings():
            warnings.simplefilter("ignore")
            res = QcConfig(cfgd).run(**kw)
        flat = {("_stream", t): alpha.flags_of(a)[0] for p, ts in res.items() for t, a in ts.items()}
        return flat, flat
    res = S.run_frontend(fe, tab, cfgd)
    d = collect_results(list(res), how="dict")
    flat_d = {(s, t): alpha.flags_of(a)[0] for s, m in d.items() for p, ts in m.items() for t, a in ts.items()}
    l = collect_results(list(res), how="list")
    flat_l = {(c.stream_id, c.test): alpha.flags_of(c.results)[0] for c in l}
    return flat_d, flat_l


BAD = {"gross": ("qartod", "gross_range_test", dict(fail_span=[0, 8, 9])), "spike": ("qartod", "spike_test", dict(suspect_threshold=1, fail_threshold=5, method="bogus"))}


def make_many(case):
    """k contexts (distinct all-covering windows) in which the SAME function cannot run (rejected parameters), and one
    context where that function is configured properly - before or after them"""
    h = case["healthy"][0]
    ok = dict(streams={"v": build_stream([HEALTHY[h]])})
    bad = [dict(start=S.T0 - (10 + i) * S.DAY, end=None, streams={"v": build_stream([BAD[h]])}) for i in range(case["many"])]
    ctxs = bad + [ok] if case.get("healthy_last", True) else [ok] + bad
    return ctxs, [("v", HEALTHY[h][1])], []


def check_case(case):
    S.install_probes()
    fe = case["fe"]
    tab = S.table(case["n"], has_z=False, has_ll=True)
    if case.get("many"):
        ctxs, healthy_keys, fault_keys = make_many(case)
    else:
        ctxs, healthy_keys, fault_keys = make_contexts(case)
    if case.get("wide"):
        # a wide table: further measured columns, each with a healthy test of its own
        tab["extra"] = {f"e{j}": [float((i * (j + 2)) % 9) for i in range(case["n"])] for j in range(case["wide"])}
        for j in range(case["wide"]):
            ctxs[0]["streams"][f"e{j}"] = build_stream([HEALTHY["gross"]])
    rename = (lambda s: "_stream") if fe == "qcconfig" else (lambda s: s)
    if fe == "qcconfig":
        # QcConfig.run returns the default stream only
        ctxs = [dict(c, streams={"_stream": c["streams"]["v"]}) for c in ctxs if "v" in c["streams"]]
    cfgd = S.make_config(ctxs)
    if case.get("layout") == "bare" and len(ctxs) == 1 and "start" not in ctxs[0]:
        cfgd = ctxs[0]["streams"]   # the bare {stream id: {module: {test: parameters}}} spelling
    kinds = "+".join(sorted({f for f, _ in case["faults"]}))
    places = "+".join(sorted({p for _, p in case["faults"]}))
    sig0 = f"{PROP}|{fe}|faults={kinds}"
    # every healthy entry alone, FIRST (the baseline is taken before anything that cannot run was attempted)
    solos = {}
    for h in case["healthy"]:
        solo_ctx = [dict(streams={rename("v"): build_stream([HEALTHY[h]])})]
        if case.get("main_window"):
            solo_ctx[0]["start"], solo_ctx[0]["end"] = S.T0 + S.DAY, S.T0 + 3 * S.DAY
        solos[h] = alpha.call(run_and_collect, fe, tab, S.make_config(solo_ctx))
    res = alpha.call(run_and_collect, fe, tab, cfgd)
    if isinstance(res, alpha.Raised):
        return [V(f"{sig0}|symptom=run-raises:{res.name}", f"{fe}: the run did not complete: {res.name}: {res.msg}", "completes", repr(res))], True, ("exc", res.name), 0, 1
    flat_d, flat_l = res
    vs = []
    nexec = 1
    for form, flat in (("dict", flat_d), ("list", flat_l)):
        for sid, test in fault_keys:
            k = (rename(sid), test)
            if k in flat and k not in [(rename(s), t) for s, t in healthy_keys]:
                vs.append(V(f"{sig0}|{form}|symptom=failing-entry-has-result:{test}", f"{fe}: the entry ({sid}, {test}) cannot run but contributed a result", None, flat[k]))
    # every healthy entry alone
    for h in case["healthy"]:
        mod, test, kw = HEALTHY[h]
        solo = solos[h]
        nexec += 1
        if isinstance(solo, alpha.Raised):
            continue  # the healthy entry cannot run alone on this front end: nothing to compare
        for form, flat, sflat in (("dict", flat_d, solo[0]), ("list", flat_l, solo[1])):
            k = (rename("v"), test)
            if sflat.get(k) is None:
                continue
            if flat.get(k) != sflat[k]:
                what = "healthy-result-missing" if k not in flat else "healthy-result-changed"
                vs.append(V(f"{sig0}|{form}|symptom={what}:{test}", f"{fe}: result of ({k[0]}, {test}) is {flat.get(k)} with the failing entries, {sflat[k]} alone", sflat[k], flat.get(k)))
    obs = tuple(sorted((k, tuple(v or ())) for k, v in flat_d.items()))
    return vs, True, obs, 0, nexec


def replay(case):
    return check_case(case)[0]


def fault_sets(maxf):
    kinds = list(FAULTS)
    for k in range(1, maxf + 1):
        for combo in itertools.combinations(kinds, k):
            yield combo


def tasks(tier):
    ts = []
    ns = (4,) if tier == "quick" else (3, 4, 5)
    for fe in S.FRONTENDS + ("numpy:dictnotime", "xarray:twodims", "xarray:notime"):
        ts.append((fe, 30, ["gross", "spike"], 1))
        for h in ("gross", "spike"):
            ts.append((fe, 6, [h], "many"))
        if fe.split(":")[0] in ("pandas", "xarray", "netcdf") or fe == "numpy:dict":
            ts.append((fe, 6, ["gross", "probe"], "wide"))
        for n in ns:
            for hs in (["gross"], ["spike"], ["probe"], ["press"], ["gross", "spike"], ["spike", "probe"], ["probe", "gross"], ["press", "gross"]):
                ts.append((fe, n, hs, 2 if tier == "quick" else 3))
    return ts


def run_task(task, acc):
    fe, n, hs, maxf = task
    S.install_probes()
    if maxf == "many":
        def gen_many():
            for k in (3, 9, 10, 11, 14, 25):
                for last in (True, False):
                    yield dict(fe=fe, n=n, healthy=hs, faults=[["rejected-params", "other-context"]], order=[], many=k, healthy_last=last)
        run_cases(acc, gen_many(), check_case)
        return
    if maxf == "wide":
        def gen_wide():
            for wide in (12, 15, 18, 40):
                for combo in (("absent-stream",), ("absent-stream-two-tests",), ("absent-stream", "unknown-test"), ("raises",)):
                    for gf in (False, True):
                        yield dict(fe=fe, n=n, healthy=hs, faults=[[f, "same-stream"] for f in combo], order=[], wide=wide, ghost_first=gf)
        run_cases(acc, gen_wide(), check_case)
        return

    def gen():
        for combo in fault_sets(maxf):
            if ("absent-stream" in combo or "absent-stream-two-tests" in combo) and fe in ("numpy:nd", "qcconfig"):
                continue
            if ("no-axes-stream" in combo or "off-time-stream" in combo) and fe != "xarray:twodims":
                continue
            if "needs-time" in combo and fe not in ("numpy:dictnotime", "xarray:notime"):
                continue
            if "same-unknown-module-twice" in combo and fe in ("numpy:nd", "qcconfig"):
                continue
            real = [f for f in combo if f not in ("absent-stream", "no-axes-stream", "absent-stream-two-tests", "off-time-stream", "same-unknown-module-twice")]
            # (a) all in the same stream, every order relative to the healthy entries
            k = len(hs) + len(real)
            perms = list(itertools.permutations(range(k))) if len(real) <= 2 else [tuple(range(k)), tuple(reversed(range(k)))]
            for order in perms:
                yield dict(fe=fe, n=n, healthy=hs, faults=[[f, "same-stream"] for f in combo], order=list(order))
                if "absent-stream" in combo or "absent-stream-two-tests" in combo:
                    yield dict(fe=fe, n=n, healthy=hs, faults=[[f, "same-stream"] for f in combo], order=list(order), ghost_first=True)
                if order == perms[0] and fe != "qcconfig":
                    # the same program spelled as a bare stream-id mapping, and inside a windowed context
                    yield dict(fe=fe, n=n, healthy=hs, faults=[[f, "same-stream"] for f in combo], order=list(order), layout="bare")
                    if fe != "numpy:dictnotime":
                        yield dict(fe=fe, n=n, healthy=hs, faults=[[f, "same-stream"] for f in combo], order=list(order), main_window=True)
            # (b) every other placement (all faults together), (c) mixed: first fault in-stream, the rest elsewhere
            for place in PLACEMENTS[1:]:
                if fe in ("numpy:nd", "qcconfig") and place == "other-stream":
                    continue
                yield dict(fe=fe, n=n, healthy=hs, faults=[[f, place] for f in combo], order=[])
                if len(real) >= 2 and combo[0] not in ("absent-stream", "no-axes-stream", "absent-stream-two-tests", "off-time-stream", "same-unknown-module-twice"):
                    yield dict(fe=fe, n=n, healthy=hs, faults=[[combo[0], "same-stream"]] + [[f, place] for f in combo[1:]], order=[])
    run_cases(acc, gen(), check_case)
