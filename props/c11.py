"""C11 - flat_line_test: window ending at the point varies less than tolerance."""
from __future__ import annotations

import itertools

from mc import alpha
from refmodel import qc as R

from .common import judge_flags, run_cases

PROP = "C11"
SIGMA = (0.0, 1.0, 3.0, alpha.NAN)
TOL = (None, 0.5, 1.0, 2.0, 3.5)  # None = default (0)
BUDGET = {"quick": 600, "thorough": 3000}
FULL_N = {"quick": 5, "thorough": 7}     # full duration grid up to this length (D=60)
RED_N = {"quick": 6, "thorough": 8}      # reduced duration grid at this length
SIDE_N = {"quick": 4, "thorough": 6}     # D in {1, 900}

META = dict(
    rule="every series of length 0..N over {0,1,3,NaN} on a regular axis of step D x every (suspect,fail) duration "
         "pair over {D/2, D, 1.5D, 2D, 3D, nD, (n+1)D} (ints where integral, floats otherwise; non-multiples, shorter "
         "than a step, longer than the series) x tolerance in {default 0, .5, 1, 2, 3.5} (window ranges 0,1,2,3 fall on "
         "both sides and exactly on it); D=60 full grid to N, reduced grid {D,2D,3D}^2 at N+1, D in {1,900} to a "
         "smaller N; plus one 1028-point series (de Bruijn sequence with every length-5 window) per D with 8x8 durations. Each state = one real flat_line_test call judged per point by the scalar reference. "
         "Scale: 12345-point series and plateau series whose run lengths straddle k-1..k+2 points for windows of k = 10..150 samples (n*(k+1) up to 1.9e6), 1 s / 60 s / 1 h sampling. non-trivial = reference demands SUSPECT or FAIL somewhere",
    bounds={"quick": {"D=60 full": 5, "D=60 reduced": 6, "D=1,900": 4}, "thorough": {"D=60 full": 7, "D=60 reduced": 8, "D=1,900": 6}},
    not_judged=["missing points (C02)", "irregular sampling (the statement is about regularly sampled series)"],
    assumptions=["window ranges over the dyadic alphabet are exact"],
)


def durations(D, n):
    ds = [D / 2, D, 1.5 * D, 2 * D, 3 * D, n * D, (n + 1) * D]
    out = []
    for d in ds:
        d = int(d) if float(d).is_integer() else float(d)
        if d not in out:
            out.append(d)
    return out


def plateaus(n, ks):
    vals = (0.0, 3.0, 1.0, 0.0, 1.0, 3.0, 0.5)
    lens = sorted({1, 2, 3} | {k + d for k in ks for d in (-1, 0, 1, 2) if k + d > 0})
    out = []
    r = 0
    while len(out) < n:
        ln = lens[(r * 5 + r // len(lens)) % len(lens)]
        run = [vals[r % len(vals)]] * ln
        if r % 7 == 3 and ln > 2:
            run[ln // 2] = alpha.NAN
        out.extend(run)
        r += 1
    return out[:n]


def tasks(tier):
    ts = [("long", D) for D in (1, 60, 900)] + [("masked",), ("xl",)]
    for n in range(0, FULL_N[tier] + 1):
        for first in (SIGMA if n >= 4 else (None,)):
            ts.append(("grid", 60, n, first, "full"))
    for first in SIGMA:
        for second in SIGMA:
            ts.append(("grid", 60, RED_N[tier], [first, second], "reduced"))
    for D in (1, 900):
        for n in range(0, SIDE_N[tier] + 1):
            for first in (SIGMA if n >= 5 else (None,)):
                ts.append(("grid", D, n, first, "full"))
    return ts


def check_case(case):
    from ioos_qc import qartod

    x = case["x"]
    n = len(x)
    D = case["D"]
    secs = alpha.regular_secs(n, D)
    kw = {}
    if case["tol"] is not None:
        kw["tolerance"] = case["tol"]
    data = alpha.nd(x)
    if case.get("data") == "ma":  # masked array; each masked slot hides a finite value far from its neighbours
        import numpy as np

        miss = [v in (alpha.NAN, None) for v in x]
        data = np.ma.MaskedArray(np.array([-9999.0 if m else float(v) for v, m in zip(x, miss)]), mask=miss)
    out = alpha.call(qartod.flat_line_test, data, alpha.dt64(secs), case["suspect"], case["fail"], **kw)
    acceptable = R.flat_line(alpha.ref(x), D, case["suspect"], case["fail"], case["tol"] or 0)
    vs, obs = judge_flags(PROP, "flat_line_test", out, acceptable, n, extra_sig=f"n{'<3' if n < 3 else '>=3'}",
                          classify=lambda i: "point")
    return vs, alpha.is_nontrivial(acceptable), obs, sum(a is None for a in acceptable)


def replay(case):
    return check_case(case)[0]


def run_task(task, acc):
    if task[0] == "long":
        D = task[1]
        x = alpha.debruijn(SIGMA, 5)  # every length-5 window over the alphabet, 1028 points
        ds = [D / 2, D, 1.5 * D, 2 * D, 3 * D, 4 * D, 7 * D, 2000 * D]
        ds = [int(d) if float(d).is_integer() else float(d) for d in ds]
        cases = (dict(x=list(x), D=D, suspect=s, fail=f, tol=tol) for s in ds for f in ds for tol in TOL)
        run_cases(acc, cases, check_case)
        return
    if task[0] == "xl":
        x = alpha.xl(SIGMA)
        cases = (dict(x=list(x), D=60, suspect=s, fail=f, tol=tol) for s, f in ((60, 180), (120, 30), (600, 90), (90, 100000)) for tol in (0.5, 2.0, 3.5))
        run_cases(acc, cases, check_case)

        def gen():
            # long records made of plateaus whose lengths straddle the window sizes (k-1, k, k+1, k+2 points)
            for D, s_, f_, n in ((60, 600, 1200, 12345), (60, 2400, 4500, 3000), (60, 6000, 9000, 12345), (1, 300, 600, 4000), (3600, 86400, 43200, 5000)):
                ks = sorted({int(s_ // D), int(f_ // D)})
                px = plateaus(n, ks)
                for tol in (0.5, 2.0):
                    yield dict(x=px, D=D, suspect=s_, fail=f_, tol=tol)
                    yield dict(x=px, D=D, suspect=s_ + D / 2, fail=f_ + D / 2, tol=tol)
        run_cases(acc, gen(), check_case)
        return
    if task[0] == "masked":
        def gen():
            for x in alpha.all_seqs(SIGMA, 3, 5):
                if alpha.NAN not in x:
                    continue
                for s, f in ((60, 120), (120, 60), (30, 180), (180, 300)):
                    for tol in (0.5, 2.0, 3.5):
                        yield dict(x=list(x), D=60, suspect=s, fail=f, tol=tol, data="ma")
        run_cases(acc, gen(), check_case)
        return
    _, D, n, first, grid = task
    if grid == "full":
        ds = durations(D, n)
    else:
        ds = [D, 2 * D, 3 * D]
    if first is None:
        prefixes = [[]]
        rest_n = n
    elif isinstance(first, list):
        prefixes = [first]
        rest_n = n - len(first)
    else:
        prefixes = [[first]]
        rest_n = n - 1

    def gen():
        for p in prefixes:
            for rest in itertools.product(SIGMA, repeat=rest_n):
                x = list(p) + list(rest)
                for s in ds:
                    for f in ds:
                        for tol in TOL:
                            yield dict(x=x, D=D, suspect=s, fail=f, tol=tol)
    run_cases(acc, gen(), check_case)
