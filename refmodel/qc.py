"""Scalar reference models of the QC tests, written from the property statements.

Pure Python: loops and ifs, `math`/`datetime` only (geographiclib for the geodesic,
called per pair with explicit (lat1, lon1, lat2, lon2)).  Inputs are lists whose
elements are floats or None (= missing).  Every function returns a list with, per
point, either a frozenset of acceptable flags or None (= this property does not
judge that point).  Exceptions the statement demands are signalled by returning
the string "ValueError" / "reject".
"""
from __future__ import annotations

import datetime as _dt
import math

GOOD, UNKNOWN, SUSPECT, FAIL, MISSING = 1, 2, 3, 4, 9
FLAGS = frozenset({1, 2, 3, 4, 9})
G = frozenset({GOOD})
U = frozenset({UNKNOWN})
S = frozenset({SUSPECT})
F = frozenset({FAIL})
M = frozenset({MISSING})
UM = frozenset({UNKNOWN, MISSING})
ANY = None
SEVERITY = {GOOD: 0, SUSPECT: 1, FAIL: 2}


def present(v):
    return v is not None and not (isinstance(v, float) and math.isnan(v))


# ---------------------------------------------------------------- C03 ranges
def gross_range(x, fail_span, suspect_span=None):
    lo_f, hi_f = sorted(fail_span)
    if suspect_span is not None:
        lo_s, hi_s = sorted(suspect_span)
        if lo_s < lo_f or hi_s > hi_f:
            return "ValueError"
    out = []
    for v in x:
        if not present(v):
            out.append(M)
        elif v < lo_f or v > hi_f:
            out.append(F)
        elif suspect_span is not None and (v < lo_s or v > hi_s):
            out.append(S)
        else:
            out.append(G)
    return out


def valid_range(x, lo, hi, start_inclusive=True, end_inclusive=False):
    """x, lo, hi: numbers (or any ordered scalars); lo/hi None = unbounded."""
    out = []
    for v in x:
        if not present(v):
            out.append(M)
            continue
        bad = False
        if lo is not None:
            bad = bad or (v < lo) or (not start_inclusive and v == lo)
        if hi is not None:
            bad = bad or (v > hi) or (not end_inclusive and v == hi)
        out.append(F if bad else G)
    return out


# ---------------------------------------------------------------- C08 climatology
def period_value(t: _dt.datetime, period):
    if period is None:
        return t
    if period in ("week", "weekofyear"):
        return t.isocalendar()[1]
    if period == "month":
        return t.month
    if period == "dayofyear":
        return t.timetuple().tm_yday
    if period == "quarter":
        return (t.month - 1) // 3 + 1
    if period == "dayofweek":
        return t.weekday()
    if period == "year":
        return t.year
    raise KeyError(period)


def climatology(members, x, t, z, judge_missing=False):
    """members: list of dicts(tspan, vspan, fspan?, zspan?, period?); tspan of
    absolute members are datetime objects. t: list of datetime. z: list or None."""
    out = []
    for i, v in enumerate(x):
        if not present(v):
            out.append(M if judge_missing else ANY)
            continue
        zi = None if z is None else z[i]
        flag = UNKNOWN
        for m in members:
            tv = period_value(t[i], m.get("period"))
            tmin, tmax = sorted(m["tspan"])
            if not (tmin <= tv <= tmax):
                continue
            zs = m.get("zspan")
            if zs is not None:
                zmin, zmax = sorted(zs)
                if not present(zi) or not (zmin <= zi <= zmax):
                    continue
            vmin, vmax = sorted(m["vspan"])
            fs = m.get("fspan")
            if fs is not None and (v < min(fs) or v > max(fs)):
                flag = FAIL
            elif v < vmin or v > vmax:
                flag = SUSPECT
            else:
                flag = GOOD
        out.append(frozenset({flag}))
    return out


# ---------------------------------------------------------------- C09 spike
def spike_d(x, i, method):
    a, b, c = x[i - 1], x[i], x[i + 1]
    if method == "average":
        return abs(b - (a + c) / 2)
    s1, s2 = b - a, c - b
    if s1 * s2 < 0:
        return min(abs(s1), abs(s2))
    return 0.0


def spike(x, suspect=None, fail=None, method="average"):
    if method not in ("average", "differential"):
        return "ValueError"
    n = len(x)
    out = []
    for i in range(n):
        if i == 0 or i == n - 1:
            out.append(U if present(x[i]) else UM)
        elif present(x[i - 1]) and present(x[i]) and present(x[i + 1]):
            d = spike_d(x, i, method)
            if fail is not None and d > fail:
                out.append(F)
            elif suspect is not None and d > suspect:
                out.append(S)
            else:
                out.append(G)
        else:
            out.append(ANY)
    return out


# ---------------------------------------------------------------- C10 rates
def rate_of_change(x, secs, threshold):
    """secs: absolute whole seconds per point."""
    out = []
    for i, v in enumerate(x):
        if not present(v):
            out.append(ANY)
        elif i == 0 or not present(x[i - 1]):
            out.append(G)
        else:
            r = abs(v - x[i - 1]) / float(secs[i] - secs[i - 1])
            out.append(S if r > threshold else G)
    return out


_GEOD = None


def geodist(lat1, lon1, lat2, lon2):
    global _GEOD
    if _GEOD is None:
        from geographiclib.geodesic import Geodesic

        _GEOD = Geodesic.WGS84
    return _GEOD.Inverse(lat1, lon1, lat2, lon2)["s12"]


def full(lon, lat, i):
    return present(lon[i]) and present(lat[i])


def speed(lon, lat, secs, suspect, fail):
    n = len(lon)
    out = []
    for i in range(n):
        if i == 0:
            out.append(U)   # C10: "flags the first point UNKNOWN" - whatever its position (C02 alone would also admit MISSING)
        elif full(lon, lat, i) and full(lon, lat, i - 1):
            sp = geodist(lat[i - 1], lon[i - 1], lat[i], lon[i]) / float(secs[i] - secs[i - 1])
            if sp > fail:
                out.append(F)
            elif sp > suspect:
                out.append(S)
            else:
                out.append(G)
        else:
            out.append(ANY)
    return out


# ---------------------------------------------------------------- C11 flat line
def flat_line(x, step, suspect_thr, fail_thr, tolerance):
    n = len(x)
    out = []
    for i in range(n):
        if not present(x[i]):
            out.append(ANY)
            continue
        if n < 3:
            out.append(G)
            continue
        flag = GOOD
        for thr, fl in ((suspect_thr, SUSPECT), (fail_thr, FAIL)):
            k = int(math.floor(thr / step))
            if i >= k:
                w = [v for v in x[i - k: i + 1] if present(v)]
                if w and (max(w) - min(w)) < tolerance:
                    flag = fl
        out.append(frozenset({flag}))
    return out


# ---------------------------------------------------------------- C12 attenuated signal
def _pstd(vals):
    m = sum(vals) / len(vals)
    return math.sqrt(sum((v - m) ** 2 for v in vals) / len(vals))


def _sstd(vals):
    if len(vals) < 2:
        return None
    m = sum(vals) / len(vals)
    return math.sqrt(sum((v - m) ** 2 for v in vals) / (len(vals) - 1))


def attenuated(x, secs, suspect, fail, test_period=None, min_obs=None, min_period=None, check_type="std", eps=1e-9):
    """Returns (acceptable list, n_skipped_for_rounding)."""
    if check_type not in ("std", "range"):
        return "ValueError", 0
    n = len(x)
    out = []
    skipped = 0

    def verdict(spread):
        nonlocal skipped
        # a std within rounding distance of a threshold is excluded by the statement; max-min of
        # dyadic values is exact, so equality is judged for 'range'
        if check_type == "std" and (abs(spread - suspect) < eps or abs(spread - fail) < eps):
            skipped += 1
            return ANY
        if spread < fail:
            return F
        if spread < suspect:
            return S
        return G

    if not test_period:
        vals = [v for v in x if present(v)]
        for v in x:
            if not present(v):
                out.append(ANY)
            else:
                spread = _pstd(vals) if check_type == "std" else (max(vals) - min(vals))
                out.append(verdict(spread))
        return out, skipped
    need = None
    if min_obs is not None:
        need = min_obs
    elif min_period is not None:
        gaps = sorted(secs[i + 1] - secs[i] for i in range(n - 1))
        if gaps:
            k = len(gaps)
            med = gaps[k // 2] if k % 2 else (gaps[k // 2 - 1] + gaps[k // 2]) / 2
            need = int(min_period / med)
        else:
            need = None  # a single point: the sampling step is undefined -> not judged
    for i in range(n):
        if not present(x[i]):
            out.append(ANY)
            continue
        idx = [j for j in range(n) if secs[i] - test_period < secs[j] <= secs[i]]
        w = [x[j] for j in idx if present(x[j])]
        has_missing = len(w) != len(idx)
        if min_period is not None and min_obs is None and need is None:
            out.append(ANY)
            continue
        if len(w) < (need if need is not None else 1):
            out.append(U)
            continue
        if check_type == "std":
            sp = _sstd(w)
            out.append(U if sp is None else verdict(sp))
        else:
            sp = max(w) - min(w)
            v = verdict(sp)
            if has_missing:
                # statement is silent on whether a missing value inside a range window
                # makes the spread undefined: accept UNKNOWN as well
                out.append(None if v is None else frozenset(v | U))
            else:
                out.append(v)
    return out, skipped


# ---------------------------------------------------------------- C13 profiles
def density_inversion(rho, z, suspect=None, fail=None):
    n = len(rho)
    if n == 1:
        return [UM if not (present(rho[0]) and present(z[0])) else U]
    lev = [0] * n
    miss = [False] * n
    for i in range(n):
        if not (present(rho[i]) and present(z[i])):
            miss[i] = True
            if i + 1 < n:
                miss[i + 1] = True
    for i in range(n - 1):
        if all(present(v) for v in (rho[i], rho[i + 1], z[i], z[i + 1])):
            dz = z[i + 1] - z[i]
            sg = (dz > 0) - (dz < 0)
            delta = sg * (rho[i + 1] - rho[i])
            if fail is not None and delta < fail:
                l = 2
            elif suspect is not None and delta < suspect:
                l = 1
            else:
                l = 0
            lev[i] = max(lev[i], l)
            lev[i + 1] = max(lev[i + 1], l)
    out = []
    for i in range(n):
        if miss[i]:
            out.append(M)
        else:
            out.append((G, S, F)[lev[i]])
    return out


def pressure_increasing(p):
    n = len(p)
    if n < 2:
        return [G] * n
    steps = [p[i + 1] - p[i] for i in range(n - 1)]
    mean = sum(steps) / len(steps)
    if mean == 0:
        return None  # direction undefined: not judged
    sg = 1 if mean > 0 else -1
    out = [G]
    for s in steps:
        out.append(G if s * sg > 0 else S)
    return out


# ---------------------------------------------------------------- C14 location
def location(lon, lat, bbox=(-180, -90, 180, 90), range_max=None):
    minx, miny, maxx, maxy = bbox
    n = len(lon)
    out = []
    for i in range(n):
        pl, pa = present(lon[i]), present(lat[i])
        if not pl and not pa:
            out.append(M)
            continue
        if pl != pa:
            out.append(F)
            continue
        if lon[i] < minx or lon[i] > maxx or lat[i] < miny or lat[i] > maxy:
            out.append(F)
            continue
        if range_max is not None and i > 0 and full(lon, lat, i - 1):
            d = geodist(lat[i - 1], lon[i - 1], lat[i], lon[i])
            if d > range_max:
                out.append(S)
                continue
        out.append(G)
    return out


# ---------------------------------------------------------------- C04 aggregation
PRECEDENCE = {MISSING: 0, UNKNOWN: 1, GOOD: 2, SUSPECT: 3, FAIL: 4}


def aggregate(vectors):
    """vectors: lists whose entries are ints (flag or non-flag) or None (=masked)."""
    n = len(vectors[0])
    out = []
    for i in range(n):
        best = None
        for v in vectors:
            e = v[i]
            if e is None or e not in PRECEDENCE:
                continue
            if best is None or PRECEDENCE[e] > PRECEDENCE[best]:
                best = e
        out.append(MISSING if best is None else best)
    return out
